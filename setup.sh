#!/bin/bash
# Build the tooling overlay venv (offline). Idempotent; called by setup_cmd and by every check.
set -e
HERE="$(cd "$(dirname "$0")" && pwd)"
VENV="$HERE/.venv"
if [ ! -x "$VENV/bin/python" ] || ! "$VENV/bin/python" -c "import z3" 2>/dev/null; then
    LOCK="$HERE/.venv.lock"
    exec 9>"$LOCK"
    flock 9
    if [ ! -x "$VENV/bin/python" ] || ! "$VENV/bin/python" -c "import z3" 2>/dev/null; then
        rm -rf "$VENV"
        /venv/bin/python -m venv "$VENV" >/dev/null
        SP="$VENV/lib/python3.12/site-packages"
        echo "import site; site.addsitedir('/venv/lib/python3.12/site-packages')" > "$SP/_overlay.pth"
        PIP_NO_INDEX=1 "$VENV/bin/pip" install -q --no-index --find-links /opt/veriftools/wheels z3-solver >/dev/null 2>&1
    fi
    flock -u 9
fi
