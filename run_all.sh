#!/bin/bash
# convenience: every quick (or $1) check in sequence, one summary line each
TIER=${1:-quick}
for p in C01 C02 C03 C04 C05 C06 C07 C08 C09 C10 C11 C12 C13 C14 C15 C16 C17 C18 C19; do
  s=$(date +%s)
  out=$(./check $p --tier $TIER 2>&1); rc=$?
  echo "$p rc=$rc $(( $(date +%s) - s ))s :: $(echo "$out" | grep "^\[$p\]" | cut -c1-230)"
  echo "$out" | grep -E "^(VIOLATION|  HARNESS-ERROR|  inconclusive)" | head -5 | cut -c1-250
done
