"""Reference model of the C data model that dissect.cstruct implements.

Written from the property statements; imports nothing from the library.  All functions are
polymorphic: they run on plain ints/bytes (concrete oracle for replays) and on proxies (solver terms).

Type descriptors (JSON-able lists):
  ["int", nbytes, signed] | ["char"] | ["wchar"] | ["float", code] | ["leb", signed] | ["void"]
  ["enum", name, base, {member: value}, is_flag] | ["ptr", T]
  ["arr", T, count]  count: int | ["expr", ast] | None (zero-terminated) | "EOF"
  ["struct", name, fields, anonymous] | ["union", name, fields, anonymous]
     fields: [[fname | None, T, bits | None], ...]
Expression ast: ["num", v] | ["id", name] | ["un", op, e] | ["bin", op, l, r] | ["sizeof", T]
"""
from __future__ import annotations

from vf import rt
from vf.rt import And, Or, Not, Ite, Implies


class RefEOF(Exception):
    """The reference extent exceeds the available input."""


class RefReject(Exception):
    """The definition must be rejected at load time (e.g. straddling bit-field)."""


INT_ALIGN = {1: 1, 2: 2, 3: 4, 4: 4, 6: 8, 8: 8, 16: 16}
FLOAT_SIZE = {"e": 2, "f": 4, "d": 8}


def int_name(nbytes, signed):
    return ("" if signed else "u") + "int%d" % (nbytes * 8)


# ------------------------------------------------------------------------------------------ expressions
def eval_expr(ast, env, sizeof):
    """C semantics over unbounded integers (/, % as in C for non-negative operands)."""
    k = ast[0]
    if k == "num":
        return ast[1]
    if k == "id":
        return env(ast[1])
    if k == "sizeof":
        return sizeof(ast[1])
    if k == "un":
        v = eval_expr(ast[2], env, sizeof)
        return -v if ast[1] == "-" else ~v
    if k == "bin":
        a = eval_expr(ast[2], env, sizeof)
        b = eval_expr(ast[3], env, sizeof)
        op = ast[1]
        if op == "+":
            return a + b
        if op == "-":
            return a - b
        if op == "*":
            return a * b
        if op == "/":
            return a // b
        if op == "%":
            return a % b
        if op == "<<":
            return a << b
        if op == ">>":
            return a >> b
        if op == "&":
            return a & b
        if op == "^":
            return a ^ b
        if op == "|":
            return a | b
    raise ValueError(ast)


PREC = {"|": 1, "^": 2, "&": 3, "<<": 4, ">>": 4, "+": 5, "-": 5, "*": 6, "/": 6, "%": 6}


def render_expr(ast, parent=0, right=False):
    k = ast[0]
    if k == "num":
        return ast[2] if len(ast) > 2 else str(ast[1])
    if k == "id":
        return ast[1]
    if k == "sizeof":
        return "sizeof(%s)" % type_text(ast[1])
    if k == "un":
        return ast[1] + render_expr(ast[2], 7)
    p = PREC[ast[1]]
    s = "%s %s %s" % (render_expr(ast[2], p), ast[1], render_expr(ast[3], p, True))
    if p < parent or (p == parent and right):
        return "(" + s + ")"
    return s


# ------------------------------------------------------------------------------------------ rendering
def type_text(T):
    k = T[0]
    if k == "int":
        return int_name(T[1], T[2])
    if k == "char":
        return "char"
    if k == "wchar":
        return "wchar"
    if k == "float":
        return {"e": "float16", "f": "float", "d": "double"}[T[1]]
    if k == "leb":
        return "ileb128" if T[1] else "uleb128"
    if k == "void":
        return "void"
    if k in ("enum", "struct", "union"):
        return T[1]
    raise ValueError(T)


def _decl(T, fname):
    """(type text, declarator) for a field of type T."""
    suffix = ""
    stars = ""
    while T[0] in ("arr", "ptr"):
        if T[0] == "arr":
            if stars:
                raise ValueError("pointer to array not expressible")
            c = T[2]
            suffix = suffix + "[%s]" % ("" if c is None else "EOF" if c == "EOF" else render_expr(c[1]) if isinstance(c, list) else c)
            T = T[1]
        else:
            stars += "*"
            T = T[1]
    return T, stars + fname + suffix


def collect_named(T, out):
    """Named enums/structs/unions in dependency order."""
    k = T[0]
    if k in ("arr", "ptr"):
        collect_named(T[1], out)
    elif k == "enum":
        collect_named(T[2], out)
        if T[1] and all(o[1] != T[1] for o in out):
            out.append(T)
    elif k in ("struct", "union"):
        for f in T[2]:
            collect_named(f[1], out)
        if not T[3] and all(o[1] != T[1] for o in out):
            out.append(T)


def render_fields(fields, indent="    "):
    lines = []
    for fname, T, bits in fields:
        base, decl = _decl(T, fname or "")
        if base[0] in ("struct", "union") and base[3]:
            inner = render_fields(base[2], indent + "    ")
            tag = (" " + base[1]) if base[3] == "tag" else ""   # "tag": a named structure declared inline (never registered)
            lines.append("%s%s%s {\n%s\n%s} %s;" % (indent, base[0], tag, inner, indent, decl) if decl else
                         "%s%s%s {\n%s\n%s};" % (indent, base[0], tag, inner, indent))
            continue
        if base[0] == "enum" and not base[1]:
            raise ValueError("anonymous enum field not expressible")
        b = " : %d" % bits if bits else ""
        lines.append("%s%s %s%s;" % (indent, type_text(base), decl, b))
    return "\n".join(lines)


def render_enum(T):
    members = ", ".join("%s = %d" % (k, v) for k, v in T[3].items())
    return "%s %s : %s { %s };" % ("flag" if T[4] else "enum", T[1], type_text(T[2]), members)


def render_parts(T, extra=""):
    """Definition texts, in dependency order: every named type T depends on, then T itself (the last part)."""
    named = []
    collect_named(T, named)
    parts = [extra] if extra else []
    for N in named:
        if N[0] == "enum":
            parts.append(render_enum(N))
        else:
            parts.append("%s %s {\n%s\n};" % (N[0], N[1], render_fields(N[2])))
    return parts


def render(T, extra=""):
    """Definition text declaring every named type T depends on, then T itself."""
    return "\n".join(render_parts(T, extra)) + "\n"


# ------------------------------------------------------------------------------------------ layout
class Layout:
    """Sizes, alignments and offsets by the C rules of the statement."""

    def __init__(self, align, ptr_bytes, consts=None):
        self.align = align
        self.ptr = ptr_bytes
        self.consts = consts or {}

    def static_count(self, c):
        """Element count when it is known from the definition alone (number, or expression over constants)."""
        if isinstance(c, bool):
            return None
        if isinstance(c, int):
            return max(0, c)
        if isinstance(c, list):
            ids = []

            def walk(a):
                if a[0] == "id":
                    ids.append(a[1])
                for x in a[1:]:
                    if isinstance(x, list):
                        walk(x)
            walk(c[1])
            if all(i in self.consts for i in ids):
                return max(0, eval_expr(c[1], lambda n: self.consts[n], lambda T: self.size_align(T)[0]))
        return None

    def size_align(self, T):
        k = T[0]
        if k == "int":
            return T[1], INT_ALIGN[T[1]]
        if k == "char":
            return 1, 1
        if k == "wchar":
            return 2, 2
        if k == "float":
            return FLOAT_SIZE[T[1]], FLOAT_SIZE[T[1]]
        if k == "leb":
            return None, 1
        if k == "void":
            return 0, 1
        if k == "enum":
            return self.size_align(T[2])
        if k == "ptr":
            return self.ptr, INT_ALIGN[self.ptr]
        if k == "arr":
            s, a = self.size_align(T[1])
            n = self.static_count(T[2])
            if n is not None and s is not None:
                return s * n, a
            return None, a
        if k == "struct":
            offs, size, a = self.struct_layout(T)
            return size, a
        if k == "union":
            size, a = 0, 1
            for _, FT, _ in T[2]:
                s, fa = self.size_align(FT)
                a = max(a, fa)
                size = None if (size is None or s is None) else max(size, s)
            if size is not None and self.align:
                size = -(-size // a) * a
            return size, a
        raise ValueError(T)

    def struct_layout(self, T):
        """[(offset | None, unit_index | None)] per field, total size | None, alignment.
        Bit-fields: consecutive fields of the same storage type share a unit until it is exhausted;
        a field that would straddle is rejected."""
        off = 0
        maxa = 1
        out = []
        unit_type = None
        unit_off = None
        remaining = 0
        for fname, FT, bits in T[2]:
            s, a = self.size_align(FT)
            maxa = max(maxa, a)
            if bits:
                base = FT[2] if FT[0] == "enum" else FT
                if s is None:
                    raise RefReject("bit-field of dynamic type")
                if remaining == 0 or unit_type != base:
                    if off is not None and self.align:
                        off = -(-off // a) * a
                    unit_type, unit_off, remaining = base, off, s * 8
                    if off is not None:
                        off += s
                if bits > remaining:
                    raise RefReject("straddling bit-field")
                out.append((unit_off, s * 8 - remaining))  # (unit offset, bits used before this field)
                remaining -= bits
                continue
            unit_type, remaining = None, 0
            if off is not None and self.align:
                off = -(-off // a) * a
            out.append((off, None))
            if off is not None:
                off = None if s is None else off + s
        if off is not None and self.align:
            off = -(-off // maxa) * maxa
        return out, off, maxa


# ------------------------------------------------------------------------------------------ codecs
def le_int(data, pos, n):
    v = 0
    for i in range(n):
        v = v | (data[pos + i] << (8 * i))
    return v


def be_int(data, pos, n):
    v = 0
    for i in range(n):
        v = v | (data[pos + i] << (8 * (n - 1 - i)))
    return v


def to_signed(v, bits):
    return Ite(v >= (1 << (bits - 1)), v - (1 << bits), v)


def decode_int(data, pos, n, signed, big):
    v = be_int(data, pos, n) if big else le_int(data, pos, n)
    return to_signed(v, 8 * n) if signed else v


def int_range(n, signed):
    return (-(1 << (8 * n - 1)), (1 << (8 * n - 1)) - 1) if signed else (0, (1 << (8 * n)) - 1)


def encode_int(v, n, signed, big):
    """Two's complement bytes of an in-range integer, as a list of int-likes."""
    u = v & ((1 << (8 * n)) - 1)
    out = [(u >> (8 * i)) & 0xFF for i in range(n)]
    return out[::-1] if big else out


class RefParser:
    """Independent reader: value tree, consumed extent and data-bit mask."""

    def __init__(self, ctx, endian, align, ptr_bytes, consts=None):
        self.ctx = ctx
        self.big = endian in (">", "!")
        self.align = align
        self.layout = Layout(align, ptr_bytes, consts)
        self.consts = consts or {}
        self.mask = {}        # byte offset -> bit mask of data-carrying bits
        self.leaves = []      # (path, offset, nbytes)

    # -- bookkeeping
    def _need(self, data, pos, n):
        if pos + n > len(data):
            raise RefEOF(f"need {n} at {pos}, have {len(data)}")

    def _mark(self, pos, n):
        for i in range(n):
            self.mask[pos + i] = 0xFF

    def sizeof(self, T):
        s, _ = self.layout.size_align(T)
        if s is None:
            raise ValueError("sizeof of dynamic type")
        return s

    # -- scalars
    def parse(self, T, data, pos, env=None):
        k = T[0]
        if k == "int":
            self._need(data, pos, T[1])
            self._mark(pos, T[1])
            return decode_int(data, pos, T[1], T[2], self.big), pos + T[1]
        if k == "char":
            self._need(data, pos, 1)
            self._mark(pos, 1)
            return data[pos:pos + 1], pos + 1
        if k == "wchar":
            self._need(data, pos, 2)
            self._mark(pos, 2)
            u = decode_int(data, pos, 2, False, self.big)
            self.ctx.assume(Or(u < 0xD800, u > 0xDFFF), "wchar units restricted to non-surrogate BMP code units")
            return [u], pos + 2
        if k == "float":
            n = FLOAT_SIZE[T[1]]
            self._need(data, pos, n)
            self._mark(pos, n)
            bits = decode_int(data, pos, n, False, self.big)
            m, e = {"e": (10, 5), "f": (23, 8), "d": (52, 11)}[T[1]]
            exp = (bits >> m) & ((1 << e) - 1)
            man = bits & ((1 << m) - 1)
            self.ctx.assume(Not(And(exp == (1 << e) - 1, man != 0)), "floats restricted to non-NaN bit patterns")
            return ("floatbits", T[1], bits), pos + n
        if k == "leb":
            return self.parse_leb(T[1], data, pos)
        if k == "void":
            return None, pos
        if k == "enum":
            return self.parse(T[2], data, pos, env)
        if k == "ptr":
            self._need(data, pos, self.layout.ptr)
            self._mark(pos, self.layout.ptr)
            return decode_int(data, pos, self.layout.ptr, False, self.big), pos + self.layout.ptr
        if k == "arr":
            return self.parse_array(T, data, pos, env)
        if k == "struct":
            return self.parse_struct(T, data, pos)
        if k == "union":
            return self.parse_union(T, data, pos)
        raise ValueError(T)

    canonical_leb = True   # restrict LEB128 input to the minimal encoding (what dumps() writes back); parse-only harnesses lift it

    def parse_leb(self, signed, data, pos, canonical=None):
        if canonical is None:
            canonical = self.canonical_leb
        result = 0
        shift = 0
        start = pos
        while True:
            self._need(data, pos, 1)
            b = data[pos]
            self.mask[pos] = 0xFF
            pos += 1
            result = result | ((b & 0x7F) << shift)
            shift += 7
            if (b & 0x80) == 0:
                break
        n = pos - start
        if canonical and n > 1:
            last, prev = data[pos - 1], data[pos - 2]
            if signed:
                ok = And(Not(And(last == 0x00, (prev & 0x40) == 0)), Not(And(last == 0x7F, (prev & 0x40) != 0)))
            else:
                ok = (last & 0x7F) != 0
            self.ctx.assume(ok, "LEB128 input restricted to the canonical minimal encoding")
        if signed:
            result = Ite((b & 0x40) != 0, result - (1 << shift), result)
        return result, pos

    # -- arrays
    def is_zero(self, T, v):
        k = T[0]
        if k in ("int", "leb", "enum", "ptr"):
            return v == 0
        if k == "char":
            return v[0] == 0
        if k == "wchar":
            return v[0] == 0
        if k == "struct":
            return And(*[self.is_zero(FT, v[fn]) for fn, FT, _ in T[2]])
        if k == "arr":
            conds = [self.is_zero(T[1], e) for e in (v if T[1][0] not in ("char",) else [v[i:i + 1] for i in range(len(v))])]
            return And(*conds) if conds else True
        raise ValueError(("no zero test for", T))

    def _join(self, ET, elems, data):
        if ET[0] == "char":
            out = data[0:0]
            for e in elems:
                out = out + e
            return out
        if ET[0] == "wchar":
            return [e[0] for e in elems]
        return elems

    def parse_array(self, T, data, pos, env):
        ET, c = T[1], T[2]
        es, _ = self.layout.size_align(ET)
        elems = []
        if c is None:  # zero-terminated: stops at and consumes the first zero element
            while True:
                v, pos = self.parse(ET, data, pos, env)
                if rt.decide_bool(self.is_zero(ET, v)):
                    break
                elems.append(v)
            return self._join(ET, elems, data), pos
        if c == "EOF":
            if es is None:
                while pos < len(data):
                    v, pos = self.parse(ET, data, pos, env)
                    elems.append(v)
                return self._join(ET, elems, data), pos
            rem = len(data) - pos
            if es == 0:
                return self._join(ET, elems, data), pos
            count, left = rem // es, rem % es
            if left and left >= self._data_extent(ET, es):
                # every member of one more element is there, only (part of) its tail padding is cut off by the end of the
                # input: padding is never read (seeking past the end is not a read), so the element is whole
                count += 1
            elif left:
                self.partial_eof = True
            for _ in range(count):
                v, pos = self.parse(ET, data, pos, env)
                elems.append(v)
            return self._join(ET, elems, data), pos
        if isinstance(c, list):
            n = eval_expr(c[1], lambda name: self._lookup(name, env), self.sizeof)
            n = Ite(n < 0, 0, n)
            if es:
                # more elements than fit is EOF whatever the exact count
                fit = max(0, (len(data) - pos) // es)
                if rt.decide_bool(n > fit):
                    raise RefEOF("array count exceeds input")
            n = rt.concretize(n)
        else:
            n = max(0, c)
        for _ in range(n):
            v, pos = self.parse(ET, data, pos, env)
            elems.append(v)
        return self._join(ET, elems, data), pos

    def _data_extent(self, ET, es):
        """Bytes of a fixed-size element up to the end of its last member (= its size unless it is an aligned structure
        with tail padding)."""
        if not self.align or ET[0] != "struct":
            return es
        offs, size, _ = self.layout.struct_layout(ET)
        end = 0
        for (off, _unit), (_, FT, bits) in zip(offs, ET[2]):
            fs = self.layout.size_align(FT)[0]
            if off is None or fs is None:
                return es
            end = max(end, off + fs)
        return end or es

    def _lookup(self, name, env):
        if env is not None and name in env:
            v = env[name]
            return v
        return self.consts[name]

    # -- structures
    def parse_struct(self, T, data, pos):
        start = pos
        offs, size, maxa = self.layout.struct_layout(T)
        res = {}
        unit = None  # (unit offset, nbytes, value)
        for (fname, FT, bits), (foff, used) in zip(T[2], offs):
            s, a = self.layout.size_align(FT)
            if bits:
                base = FT[2] if FT[0] == "enum" else FT
                nb = s * 8
                if used == 0:
                    if foff is not None:
                        pos = start + foff
                    elif self.align:
                        pos = -(-pos // a) * a
                    self._need(data, pos, s)
                    unit = (pos, s, be_int(data, pos, s) if self.big else le_int(data, pos, s))
                    pos += s
                upos, _, U = unit
                shift = (nb - used - bits) if self.big else used
                v = (U >> shift) & ((1 << bits) - 1)
                for kbit in range(shift, shift + bits):
                    byte = upos + ((s - 1 - kbit // 8) if self.big else kbit // 8)
                    self.mask[byte] = self.mask.get(byte, 0) | (1 << (kbit % 8))
                res[fname] = v
                continue
            if foff is not None:
                pos = start + foff
            elif self.align:
                pos = -(-pos // a) * a
            key = fname if fname is not None else FT[1]
            v, pos = self.parse(FT, data, pos, res)
            res[key] = v
            if fname is None and FT[0] in ("struct", "union"):
                for k2, v2 in v.items():
                    res.setdefault(k2, v2)
        if self.align:
            pos = -(-pos // maxa) * maxa
            if pos > len(data) and size is None:
                pass  # tail padding beyond the input: seeking past the end is not a read
        return res, pos

    def parse_union(self, T, data, pos):
        size, a = self.layout.size_align(T)
        if size is None:
            raise ValueError("dynamic union outside the reference model")
        self._need(data, pos, size)
        res = {}
        sub_masks = {}
        for fname, FT, bits in T[2]:
            saved = self.mask
            self.mask = {}
            v, _ = self.parse(FT, data[pos:pos + size], 0, res)
            for k, m in self.mask.items():
                sub_masks[pos + k] = sub_masks.get(pos + k, 0) | m
            self.mask = saved
            key = fname if fname is not None else FT[1]
            res[key] = v
            if fname is None and FT[0] in ("struct", "union"):
                for k2, v2 in v.items():
                    res.setdefault(k2, v2)
        for k, m in sub_masks.items():
            self.mask[k] = self.mask.get(k, 0) | m
        return res, pos + size


# ------------------------------------------------------------------------------------------ comparing
def units_of(x):
    """UTF-16 code units of a library wchar value (proxy or real str), as int-likes."""
    p = rt.payload(x)
    if type(p) is rt.SStr:
        return [u if type(u) is int else rt.SInt(rt.z3.ZeroExt(rt.W - 16, u), 0, 0xFFFF) for u in p.items]
    s = str(p)
    out = []
    for ch in s:
        o = ord(ch)
        if o > 0xFFFF:
            o -= 0x10000
            out.extend([0xD800 | (o >> 10), 0xDC00 | (o & 0x3FF)])
        else:
            out.append(o)
    return out


def float_bits_of(x, code):
    p = rt.payload(x)
    if type(p) is rt.SFloat:
        if p.code != code:
            raise rt.Inconclusive("float width mismatch")
        n = rt._FBITS[code]
        return rt.SInt(rt.z3.ZeroExt(rt.W - n, p.bits), 0, (1 << n) - 1)
    import struct
    return int.from_bytes(struct.pack("<" + code, float(p)), "little")


def bytes_eq(a, b):
    """Equality of two bytes-likes (proxy or real) as a condition."""
    if len(a) != len(b):
        return False
    conds = [a[i] == b[i] for i in range(len(a))]
    return And(*conds) if conds else True


def value_eq(T, lib, ref):
    """Condition: library value `lib` equals reference value `ref` of type T."""
    k = T[0]
    if k in ("int", "leb", "ptr"):
        return lib == ref
    if k == "enum":
        return And(lib == ref, lib.value == ref)
    if k == "char":
        return bytes_eq(lib, ref)
    if k == "wchar":
        u = units_of(lib)
        if len(u) != len(ref):
            return False
        return And(*[x == y for x, y in zip(u, ref)]) if u else True
    if k == "float":
        return float_bits_of(lib, T[1]) == ref[2]
    if k == "void":
        return True
    if k == "arr":
        ET = T[1]
        if ET[0] == "char":
            return bytes_eq(lib, ref)
        if ET[0] == "wchar":
            return value_eq(["wchar"], lib, ref)
        if len(lib) != len(ref):
            return False
        cs = [value_eq(ET, x, y) for x, y in zip(lib, ref)]
        return And(*cs) if cs else True
    if k in ("struct", "union"):
        return fields_eq(T[2], lib, ref)
    raise ValueError(T)


def fields_eq(fields, lib, ref):
    cs = []
    for fname, FT, bits in fields:
        if fname is None:
            # anonymous member: its fields are reachable directly on the outer value
            cs.append(fields_eq(FT[2], lib, ref[FT[1]]))
            continue
        lv = getattr(lib, fname)
        if bits:
            cs.append(lv == ref[fname])
            if FT[0] == "enum":
                cs.append(lv.value == ref[fname])
        else:
            cs.append(value_eq(FT, lv, ref[fname]))
    return And(*cs) if cs else True


# ------------------------------------------------------------------------------------------ library vs library
def lib_eq(T, a, b):
    """Condition: two library values of type T are equal leaf by leaf (independent of the library's __eq__)."""
    k = T[0]
    if k in ("int", "leb", "ptr"):
        return a == b
    if k == "enum":
        return a.value == b.value
    if k == "char":
        return bytes_eq(a, b)
    if k == "wchar":
        ua, ub = units_of(a), units_of(b)
        if len(ua) != len(ub):
            return False
        return And(*[x == y for x, y in zip(ua, ub)]) if ua else True
    if k == "float":
        return float_bits_of(a, T[1]) == float_bits_of(b, T[1])
    if k == "void":
        return True
    if k == "arr":
        ET = T[1]
        if ET[0] == "char":
            return bytes_eq(a, b)
        if ET[0] == "wchar":
            return lib_eq(["wchar"], a, b)
        if len(a) != len(b):
            return False
        cs = [lib_eq(ET, x, y) for x, y in zip(a, b)]
        return And(*cs) if cs else True
    if k in ("struct", "union"):
        return lib_fields_eq(T[2], a, b)
    raise ValueError(T)


def lib_fields_eq(fields, a, b):
    cs = []
    for fname, FT, bits in fields:
        if fname is None:
            cs.append(lib_fields_eq(FT[2], a, b))
            continue
        x, y = getattr(a, fname), getattr(b, fname)
        if bits:
            cs.append((x.value == y.value) if FT[0] == "enum" else (x == y))
        else:
            cs.append(lib_eq(FT, x, y))
    return And(*cs) if cs else True


# ------------------------------------------------------------------------------------------ expression reference parser
class ExprSyntaxError(Exception):
    pass


def parse_literal(tok):
    t = tok.lower()
    while t and t[-1] in "ul" and not (t.startswith("0x") and t[-1] not in "ul"):
        t = t[:-1]
    if t.startswith("0x"):
        return int(t[2:], 16)
    if t.startswith("0b"):
        return int(t[2:], 2)
    if len(t) > 1 and t[0] == "0":
        return int(t, 8)
    return int(t, 10)


BIN_LEVELS = [["|"], ["^"], ["&"], ["<<", ">>"], ["+", "-"], ["*", "/", "%"]]


def parse_expr(tokens):
    """Precedence climbing over a token list -> ast.  C precedence, left associativity; unary - ~ bind tightest."""
    pos = [0]

    def peek():
        return tokens[pos[0]] if pos[0] < len(tokens) else None

    def take():
        t = peek()
        pos[0] += 1
        return t

    def primary():
        t = take()
        if t is None:
            raise ExprSyntaxError("unexpected end")
        if t == "(":
            e = level(0)
            if take() != ")":
                raise ExprSyntaxError("expected )")
            return e
        if t in ("-", "~"):
            return ["un", t, primary()]
        if t == "sizeof":
            if take() != "(":
                raise ExprSyntaxError("sizeof(")
            name = take()
            if take() != ")":
                raise ExprSyntaxError("sizeof)")
            return ["sizeof", name]
        if t[0].isdigit():
            return ["num", parse_literal(t), t]
        if t[0].isalpha() or t[0] == "_":
            return ["id", t]
        raise ExprSyntaxError(t)

    def level(i):
        if i == len(BIN_LEVELS):
            return primary()
        left = level(i + 1)
        while peek() in BIN_LEVELS[i]:
            op = take()
            right = level(i + 1)
            left = ["bin", op, left, right]
        return left

    e = level(0)
    if pos[0] != len(tokens):
        raise ExprSyntaxError("trailing tokens")
    return e


# ------------------------------------------------------------------------------------------ reference encoder
class RefEncoder:
    """Independent writer for fixed-size types: list of byte int-likes, padding and unassigned bits zero,
    plus the data-bit mask of what it wrote."""

    def __init__(self, endian, align, ptr_bytes, consts=None):
        self.big = endian in (">", "!")
        self.layout = Layout(align, ptr_bytes, consts)

    def encode(self, T, v):
        size, _ = self.layout.size_align(T)
        out = [0] * size
        mask = [0] * size
        self._put(T, v, out, mask, 0)
        return out, mask

    def _put_int(self, v, n, out, mask, pos):
        b = encode_int(v, n, None, self.big)
        for i in range(n):
            out[pos + i] = b[i]
            mask[pos + i] = 0xFF

    def _put(self, T, v, out, mask, pos):
        k = T[0]
        if k == "int":
            self._put_int(v, T[1], out, mask, pos)
        elif k == "enum":
            self._put(T[2], v, out, mask, pos)
        elif k == "ptr":
            self._put_int(v, self.layout.ptr, out, mask, pos)
        elif k == "char":
            out[pos] = v[0]
            mask[pos] = 0xFF
        elif k == "wchar":
            self._put_int(v[0], 2, out, mask, pos)
        elif k == "float":
            self._put_int(v[2], FLOAT_SIZE[T[1]], out, mask, pos)
        elif k == "void":
            pass
        elif k == "arr":
            ET = T[1]
            es, _ = self.layout.size_align(ET)
            n = self.layout.static_count(T[2])
            for i in range(n):
                e = v[i:i + 1] if ET[0] == "char" else [v[i]] if ET[0] == "wchar" else v[i]
                self._put(ET, e, out, mask, pos + i * es)
        elif k == "struct":
            offs, size, _ = self.layout.struct_layout(T)
            for (fname, FT, bits), (foff, used) in zip(T[2], offs):
                key = fname if fname is not None else FT[1]
                if bits:
                    s, _ = self.layout.size_align(FT)
                    nb = s * 8
                    shift = (nb - used - bits) if self.big else used
                    for kbit in range(bits):
                        bit = (v[key] >> kbit) & 1
                        ub = shift + kbit
                        byte = pos + foff + ((s - 1 - ub // 8) if self.big else ub // 8)
                        out[byte] = out[byte] | (bit << (ub % 8))
                        mask[byte] |= 1 << (ub % 8)
                else:
                    self._put(FT, v[key], out, mask, pos + foff)
        elif k == "union":
            # the first member carries the bytes; callers track union buffers themselves
            fname, FT, _ = T[2][0]
            self._put(FT, v[fname if fname is not None else FT[1]], out, mask, pos)
        else:
            raise ValueError(T)
