"""Replay counterexamples against the un-instrumented library (plain import of $VERIF_REPO, real
bytes, real io.BytesIO, real struct) with a concrete evaluation of the same harness assertions."""
from __future__ import annotations

import importlib
import json
import os
import sys
import traceback

ROOT = os.path.dirname(os.path.dirname(os.path.abspath(__file__)))
sys.path.insert(0, ROOT)
from vf import instr  # noqa: E402

instr.install_plain()


def replay_one(item):
    from vf import core, rt
    rt.set_width(item["case"].get("width", 256))
    mod = importlib.import_module("vf.harness." + item["harness"])
    make = getattr(mod, item["case"].get("make", "make"))
    try:
        run = make(item["case"])
    except Exception as e:  # noqa: BLE001
        return {"failed": [], "error": "make: " + repr(e)}
    if run is None:
        return {"failed": [], "error": "case skipped by reference"}
    try:
        outcome, ctx = core.run_concrete(run, item["assignment"])
    except Exception as e:  # noqa: BLE001
        return {"failed": [], "error": "run: " + "".join(traceback.format_exception_only(type(e), e)).strip()}
    failed = []
    for label, cond, detail in ctx.checks:
        try:
            ok = bool(cond)
        except Exception as e:  # noqa: BLE001
            ok = False
            detail = repr(e)
        if not ok:
            failed.append(label if detail is None else f"{label} [{detail}]")
    obs = [(lab, repr(core.canon(v))[:200]) for lab, v in ctx.observed[:12]]
    return {"failed": failed, "outcome": outcome, "observed": obs}


def main():
    if sys.argv[1] == "--batch":
        items = json.load(open(sys.argv[2]))
        out = []
        for it in items:
            out.append(replay_one(it))
        print(json.dumps(out, default=str))
        return 0
    item = json.load(open(sys.argv[1]))
    import dissect.cstruct
    r = replay_one(item)
    print("library under replay:", dissect.cstruct.__file__)
    print("case:", item["case"].get("label"), item["case"].get("cfg"))
    if "text" in item["case"]:
        print(item["case"]["text"])
    print("assignment:", json.dumps(item["assignment"]))
    print("observed:", r.get("observed"))
    if r.get("failed"):
        for f in r["failed"]:
            print("FAILED:", f)
        print(f"REPRODUCED property={item['property']}")
        return 1
    print("not reproduced:", r)
    return 0


if __name__ == "__main__":
    sys.exit(main())
