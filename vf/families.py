"""Case families shared by the structure-level harnesses."""
from vf import defgen as G
from vf.harness import common as H

PAIRWISE = [  # covers every pair of (endian, align, compiled) values
    {"endian": "<", "align": False, "compiled": False, "pointer": "uint64"},
    {"endian": "<", "align": True, "compiled": True, "pointer": "uint32"},
    {"endian": ">", "align": False, "compiled": True, "pointer": "uint16"},
    {"endian": ">", "align": True, "compiled": False, "pointer": "uint64"},
]


def _case(label, T, cfg, extra=None):
    c = {"label": label, "T": T, "cfg": cfg, "nbytes": H.input_len(T, cfg)}
    if extra:
        c.update(extra)
    return c


def struct_cases(tier, seed, *, both_readers=True, keep=None):
    """(label, T, cfg) triples.  quick: curated + all 1-field + all 2-field definitions over the core alphabet;
    thorough: full alphabet, 2-field exhaustive, 3-field and random deeper definitions sampled by VERIF_SEED."""
    import random
    keep = keep or (lambda label, T: True)
    full8 = list(G.configs())
    if not both_readers:
        full8 = [c for c in full8 if not c["compiled"]]
    pair = PAIRWISE if both_readers else [dict(c, compiled=False) for c in PAIRWISE]
    for label, T in G.curated():
        if keep(label, T):
            for cfg in full8:
                yield _case(label, T, cfg)
    if tier == "quick":
        for label, T in G.sequences(G.FULL, 1):
            if keep(label, T):
                for cfg in full8:
                    yield _case(label, T, cfg)
        for label, T in G.sequences(G.CORE, 2):
            if "|" in label and keep(label, T):
                for cfg in pair:
                    yield _case(label, T, cfg)
        return
    ptrs = ["uint8", "uint16", "uint32", "uint64"]
    rng = random.Random(seed)
    for label, T in G.sequences(G.FULL, 1):
        if keep(label, T):
            for cfg in full8:
                yield _case(label, T, cfg)
    # deeper definitions first (a sample of the program space, seeded), then every 2-member definition
    for label, T in G.random_structs(seed, 2500):
        if keep(label, T):
            yield _case(label, T, dict(rng.choice(full8), pointer=rng.choice(ptrs)))
    for i in range(8000):
        kinds = [rng.choice(G.FULL) for _ in range(3)]
        T = G.build_struct(kinds)
        if T is None:
            continue
        label = "|".join(k[0] for k in kinds)
        if keep(label, T):
            yield _case(label, T, dict(rng.choice(full8), endian=rng.choice("<>!") if both_readers else rng.choice("<>")))
    for label, T in G.sequences(G.FULL, 2):
        if "|" in label and keep(label, T):
            for i, cfg in enumerate(pair):
                cfg = dict(cfg, pointer=ptrs[(i + len(label)) % 4]) if H.has_kind(T, ("ptr",)) else cfg
                yield _case(label, T, cfg)
