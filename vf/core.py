"""Harness context, per-case exploration, obligations, witness replay, known-finding split."""
from __future__ import annotations

import io
import json
import re
import struct
import time
import traceback

import z3

from vf import rt
from vf.rt import ENGINE, Inconclusive, OutOfBound, HarnessError


class Ctx:
    """What a harness sees.  Symbolic mode hands out proxies; concrete mode hands out plain Python
    values taken from an assignment, so the same harness code is its own concrete oracle."""

    def __init__(self, symbolic, assignment=None):
        self.symbolic = symbolic
        self.assignment = assignment or {}
        self.checks = []      # (label, cond, detail)
        self.observed = []    # (label, value)
        self.inputs = {}      # name -> value handed to the harness (for known-finding regions)
        self.notes = []

    # ---- inputs
    def bytes(self, name, n):
        if self.symbolic:
            v = ENGINE.sym_bytes(name, n)
        else:
            v = bytes(self.assignment.get(name, [0] * n))
            if len(v) != n:
                v = (v + b"\x00" * n)[:n]
        self.inputs[name] = v
        return v

    def int(self, name, lo, hi):
        if self.symbolic:
            v = ENGINE.sym_int(name, lo, hi)
        else:
            v = int(self.assignment.get(name, max(lo, min(hi, 0))))
        self.inputs[name] = v
        return v

    def choose(self, name, n):
        if self.symbolic:
            v = ENGINE.choose(name, n)
        else:
            v = int(self.assignment.get(name, 0))
        self.inputs[name] = v
        return v

    def assume(self, cond, reason):
        if self.symbolic:
            ENGINE.assume(cond, reason)
        elif not cond:
            raise OutOfBound(reason)

    def constrain(self, cond):
        """Precondition on fresh inputs (never forks).  Concrete mode: violated => out of bound."""
        if self.symbolic:
            ENGINE.constrain(cond)
        elif not cond:
            raise OutOfBound("input precondition")

    # ---- environment
    def stream(self, data):
        if self.symbolic:
            return rt.SymStream(data)
        return LoggedBytesIO(bytes(data))

    def based_stream(self, data, base, junk=0xA5):
        """Stream positioned at absolute offset `base`, `data` starting there."""
        if self.symbolic:
            return rt.BasedStream(data, base)
        s = io.BytesIO(bytes([junk]) * base + bytes(data))
        s.seek(base)
        return s

    def fault_stream(self, data, fault_at, mode, short_by=1):
        if self.symbolic:
            return rt.FaultStream(data, fault_at, mode, short_by)
        return ConcreteFaultStream(bytes(data), fault_at, mode, short_by)

    # ---- results
    def check(self, label, cond, detail=None):
        self.checks.append((label, cond, detail))

    def observe(self, label, value):
        self.observed.append((label, value))

    def note(self, text):
        self.notes.append(text)


class LoggedBytesIO(io.BytesIO):
    """io.BytesIO that records its read calls (the concrete counterpart of SymStream.log)."""

    def __init__(self, data=b""):
        super().__init__(data)
        self.log = []

    def read(self, n=-1):
        out = super().read(n)
        self.log.append(("read", n, len(out)))
        return out

    def readinto(self, b):
        n = super().readinto(b)
        self.log.append(("read", len(b), n))
        return n


class ConcreteFaultStream(io.BytesIO):
    def __init__(self, data, fault_at, mode, short_by=1):
        super().__init__(data)
        self.fault_at, self.mode, self.short_by = fault_at, mode, short_by
        self.nreads = 0
        self.fired = False

    def read(self, n=-1):
        k = self.nreads
        self.nreads += 1
        if k == self.fault_at:
            self.fired = True
            if self.mode == "raise":
                raise OSError("injected stream fault")
            if n is None or n < 0:
                n = len(self.getvalue()) - self.tell()
            return super().read(max(0, n - self.short_by))
        return super().read(n)


# ------------------------------------------------------------------------------------ canonical values
def _float_bits(x):
    return struct.unpack("<Q", struct.pack("<d", x))[0]


def canon(v, model=None, depth=0):
    """Plain, comparable rendering of an observed value (proxy under `model`, or a real object)."""
    t = type(v)
    if t is rt.SInst:
        return canon(v._payload, model, depth)
    if t is rt.SInt:
        return model.eval(v.t, model_completion=True).as_signed_long()
    if t is rt.SBool:
        return bool(z3.is_true(model.eval(v.t, model_completion=True)))
    if t in (rt.SBytes, rt.SByteArray):
        return bytes(i if type(i) is int else model.eval(i, model_completion=True).as_long() for i in v.items)
    if t is rt.SStr:
        return "".join(chr(i if type(i) is int else model.eval(i, model_completion=True).as_long()) for i in v.items)
    if t is rt.SFloat:
        bits = model.eval(v.bits, model_completion=True).as_long()
        n = rt._FBITS[v.code]
        f = struct.unpack("<" + v.code, bits.to_bytes(n // 8, "little"))[0]
        return ("float", _float_bits(f))
    if v is None or t is bool or t is str or t is bytes:
        return v
    if isinstance(v, bool):
        return bool(v)
    if isinstance(v, float):
        return ("float", _float_bits(v))
    if isinstance(v, int):
        return int(v)
    if isinstance(v, (bytes, bytearray, memoryview)):
        return bytes(v)
    if isinstance(v, str):
        return str(v)
    if isinstance(v, (list, tuple)):
        return [canon(i, model, depth + 1) for i in v]
    if isinstance(v, dict):
        return {str(k): canon(i, model, depth + 1) for k, i in v.items()}
    fields = getattr(type(v), "__fields__", None)
    if fields is not None and depth < 6:
        return {"<%s>" % type(v).__name__: {f._name: canon(getattr(v, f._name, None), model, depth + 1) for f in fields}}
    tgt = getattr(v, "__target__", None)
    if tgt is not None:
        return canon(tgt, model, depth + 1)
    return "<%s>" % type(v).__name__


def assignment_from_model(model):
    out = {}
    for name, (kind, t) in ENGINE.inputs.items():
        if kind == "bytes":
            out[name] = [model.eval(x, model_completion=True).as_long() for x in t]
        else:
            out[name] = model.eval(t, model_completion=True).as_signed_long()
    return out


# ------------------------------------------------------------------------------------ known findings
class KnownFindings:
    def __init__(self, path):
        try:
            self.entries = json.load(open(path))["findings"]
        except FileNotFoundError:
            self.entries = []

    def matching(self, prop, case, label):
        out = []
        for e in self.entries:
            if e.get("status", "open") != "open" or e["property"] != prop:
                continue
            if not re.search(e.get("label", ".*"), label):
                continue
            try:
                from vf import kfhelpers
                if not eval(e.get("case", "True"), {"re": re, "helpers": kfhelpers}, {"case": case}):
                    continue
            except Exception:
                continue
            out.append(e)
        return out

    @staticmethod
    def region(entry, ctx, case, label=""):
        """The input region of a finding, evaluated over the harness inputs (proxies or concrete)."""
        m = re.search(r"@(\d+)", label)
        env = {"inp": ctx.inputs, "case": case, "And": rt.And, "Or": rt.Or, "Not": rt.Not, "re": re, "label": label,
               "at": int(m.group(1)) if m else None}
        return eval(entry.get("region", "True"), env, dict(ctx.inputs))


# ------------------------------------------------------------------------------------ exploration
def explore_case(prop, harness_make, case, kf, *, max_paths=4096, witness_every=1, time_budget=120.0):
    """Run one case symbolically over all its paths.  Returns a JSON-able result dict."""
    t0 = time.time()
    res = {
        "case": case, "paths": 0, "decided_paths": 0, "obligations": 0, "discharged": 0, "trivial": 0,
        "inconclusive": [], "out_of_bound": {}, "violations": [], "known": [], "errors": [],
        "witness_ok": 0, "witness_bad": [], "sample": None, "reached": 0, "outcomes": {},
    }
    q0, s0, d0 = ENGINE.queries, ENGINE.solver_time, ENGINE.decisions
    ENGINE.symbolic = False
    try:
        run = harness_make(case)
    except Exception as e:
        res["errors"].append("make: " + "".join(traceback.format_exception_only(type(e), e)).strip())
        return res
    if run is None:
        res["skipped"] = True
        return res
    ENGINE.trail = []
    npaths = 0
    while True:
        ENGINE.begin_path()
        ENGINE.symbolic = True
        ctx = Ctx(True)
        npaths += 1
        status = "ok"
        try:
            run(ctx)
        except Inconclusive as e:
            status = "inconclusive"
            res["inconclusive"].append(str(e)[:200])
        except OutOfBound as e:
            status = "oob"
            res["out_of_bound"][str(e)] = res["out_of_bound"].get(str(e), 0) + 1
        except HarnessError:
            raise
        except Exception as e:
            status = "error"
            tb = traceback.extract_tb(e.__traceback__)
            where = " <- ".join(f"{f.filename.split('/')[-1]}:{f.lineno}" for f in tb[-3:])
            res["errors"].append(f"{type(e).__name__}: {str(e)[:160]} @ {where}")
        finally:
            ENGINE.symbolic = False
        if status == "ok":
            try:
                if ENGINE.check() != z3.sat:
                    raise Inconclusive("path condition not satisfiable at path end (engine defect)")
                _discharge(prop, ctx, case, kf, res)
                res["decided_paths"] += 1
                if ctx.checks:
                    res["reached"] += 1
                for lab, v in ctx.observed:
                    if lab == "outcome":
                        res["outcomes"][str(v)] = res["outcomes"].get(str(v), 0) + 1
                if witness_every and (npaths - 1) % witness_every == 0:
                    _witness(run, ctx, res)
                if res["sample"] is None and ctx.checks:
                    res["sample"] = {"path_condition": [str(c)[:120] for c in ENGINE.pc[:6]],
                                     "obligations": [lab for lab, _, _ in ctx.checks[:8]]}
            except Inconclusive as e:
                res["inconclusive"].append(str(e)[:200])
            except OutOfBound as e:
                res["out_of_bound"][str(e)] = res["out_of_bound"].get(str(e), 0) + 1
            except HarnessError:
                raise
            except Exception as e:  # noqa: BLE001
                tb = traceback.extract_tb(e.__traceback__)
                where = " <- ".join(f"{f.filename.split('/')[-1]}:{f.lineno}" for f in tb[-3:])
                res["errors"].append(f"post-run {type(e).__name__}: {str(e)[:160]} @ {where}")
            finally:
                ENGINE.symbolic = False
        if not ENGINE.backtrack():
            break
        if npaths >= max_paths:
            res["inconclusive"].append(f"path cap {max_paths} reached")
            break
        if time.time() - t0 > time_budget:
            res["inconclusive"].append(f"time budget {time_budget}s reached after {npaths} paths")
            break
    res["paths"] = npaths
    res["queries"] = ENGINE.queries - q0
    res["solver_s"] = round(ENGINE.solver_time - s0, 4)
    res["branch_points"] = ENGINE.decisions - d0
    res["wall_s"] = round(time.time() - t0, 4)
    return res


SECOND = {"every": 0, "count": 0}


def second_solver(neg):
    """Re-discharge `pc and neg` with an independent solver binary; returns 'unsat' | 'sat' | 'unknown' | 'error'."""
    import os
    import subprocess
    import tempfile
    s2 = z3.Solver()
    s2.add(*ENGINE.pc)
    s2.add(neg)
    text = s2.to_smt2()
    fd, path = tempfile.mkstemp(suffix=".smt2", prefix="vf_second_")
    try:
        with os.fdopen(fd, "w") as f:
            f.write(text)
        for cmd in (["/usr/bin/z3", "-T:30", "-smt2", path], ["cvc5", "--tlimit=30000", path]):
            try:
                p = subprocess.run(cmd, capture_output=True, text=True, timeout=40)
            except Exception:  # noqa: BLE001
                continue
            out = p.stdout.strip().splitlines()
            if any(line.startswith("(error") for line in out):
                continue
            if out and out[0] in ("sat", "unsat", "unknown"):
                return out[0], cmd[0]
        return "error", ""
    finally:
        try:
            os.unlink(path)
        except OSError:
            pass


def _second(res, neg, primary):
    if not SECOND["every"]:
        return
    SECOND["count"] += 1
    if SECOND["count"] % SECOND["every"]:
        return
    ans, who = second_solver(neg)
    st = res.setdefault("second", {"checked": 0, "agree": 0, "disagree": [], "inconclusive": 0})
    st["checked"] += 1
    if ans == primary:
        st["agree"] += 1
    elif ans in ("unknown", "error"):
        st["inconclusive"] += 1
    else:
        st["disagree"].append(f"{who}: {ans} vs z3: {primary}")


def _discharge(prop, ctx, case, kf, res):
    pending = []
    for label, cond, detail in ctx.checks:
        res["obligations"] += 1
        if cond is True:
            res["discharged"] += 1
            res["trivial"] += 1
        else:
            pending.append((label, cond, detail))
    if not pending:
        return
    # one query for the conjunction; only when it is refuted are the obligations examined one by one
    if len(pending) > 1 and not any(c is False for _, c, _ in pending):
        conj = z3.Not(z3.And(*[rt.bterm(c) for _, c, _ in pending]))
        r = ENGINE.check(conj)
        if r == z3.unsat:
            res["discharged"] += len(pending)
            _second(res, conj, "unsat")
            return
    for label, cond, detail in pending:
        entries = kf.matching(prop, case, label)
        neg = z3.BoolVal(True) if cond is False else z3.Not(rt.bterm(cond))
        if entries:
            regions = [rt.bterm(kf.region(e, ctx, case, label)) for e in entries]
            inside = z3.Or(*regions)
            r_in = ENGINE.check(neg, inside)
            if r_in == z3.sat:
                res["discharged"] -= 1  # a listed finding is not a discharged obligation
                m = ENGINE.solver.model()
                for e, reg in zip(entries, regions):
                    if z3.is_true(m.eval(reg, model_completion=True)):
                        res["known"].append({"finding": e["id"], "label": label, "assignment": assignment_from_model(m)})
            elif r_in == z3.unknown:
                res["inconclusive"].append(f"unknown on known-finding region of {label}")
            r = ENGINE.check(neg, z3.Not(inside))
        else:
            r = ENGINE.check(neg)
        if r == z3.unsat:
            res["discharged"] += 1
            if not entries:
                _second(res, neg, "unsat")
        elif r == z3.sat:
            m = ENGINE.solver.model()
            res["violations"].append({"label": label, "detail": detail, "assignment": assignment_from_model(m)})
        else:
            res["inconclusive"].append(f"solver unknown on obligation {label}")


def run_concrete(run, assignment):
    """Run the harness with plain Python values.  Returns (outcome, ctx)."""
    ctx = Ctx(False, assignment)
    prev = ENGINE.symbolic
    ENGINE.symbolic = False
    try:
        run(ctx)
        return "ok", ctx
    except OutOfBound as e:
        return "oob:" + str(e), ctx
    except Inconclusive as e:
        return "inconclusive:" + str(e), ctx
    finally:
        ENGINE.symbolic = prev


def _witness(run, ctx, res):
    """Validate the encoding: a model of the path condition, replayed on the real code with real
    bytes/ints (hooked modules in pass-through mode), must give the observed values."""
    # a fresh solver: the model then depends on this path's condition only, not on the worker's query history
    ws = z3.Solver()
    ws.set("timeout", ENGINE.timeout_ms)
    ws.add(*ENGINE.pc)
    if ws.check() != z3.sat:
        raise Inconclusive("no model for the path condition in the witness solver")
    m = ws.model()
    assignment = assignment_from_model(m)
    expected = [(lab, canon(v, m)) for lab, v in ctx.observed]
    exp_checks = [lab for lab, c, _ in ctx.checks]
    outcome, cctx = run_concrete(run, assignment)
    got = [(lab, canon(v)) for lab, v in cctx.observed]
    got_checks = [lab for lab, c, _ in cctx.checks]
    if outcome != "ok" or got != expected or got_checks != exp_checks:
        res["witness_bad"].append({"assignment": assignment, "symbolic": _short(expected), "concrete": _short(got),
                                   "outcome": outcome, "labels_sym": exp_checks[:12], "labels_conc": got_checks[:12],
                                   "diff": _first_diff(expected, got, exp_checks, got_checks)})
    else:
        res["witness_ok"] += 1


def _first_diff(expected, got, exp_checks, got_checks):
    """Where the symbolic run and its concrete replay first part ways (for the harness-error report)."""
    for i, (e, g) in enumerate(zip(expected, got)):
        if e != g:
            return f"observation {i}: symbolic {e!r:.300} / concrete {g!r:.300}"
    if len(expected) != len(got):
        return f"{len(expected)} symbolic observations / {len(got)} concrete"
    for i, (e, g) in enumerate(zip(exp_checks, got_checks)):
        if e != g:
            return f"check {i}: symbolic {e!r} / concrete {g!r}"
    return f"{len(exp_checks)} symbolic checks / {len(got_checks)} concrete"


def _short(x):
    s = repr(x)
    return s if len(s) < 1500 else s[:1500] + "..."
