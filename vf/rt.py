"""Symbolic runtime: z3-backed proxies, DFS path engine, models of C-level callees.

Internal proxy detection always uses ``type(x) is SInt`` etc. (proxies fake ``__class__``)."""
from __future__ import annotations

import builtins
import re as _re
import enum as _enum
import io as _io
import os
import struct as _struct_mod
import time
import types as _types

import z3

from vf import instr

_real_compile = builtins.compile
_real_isinstance = builtins.isinstance
_real_len = builtins.len
_real_hash = builtins.hash
_real_type = builtins.type

W = 256  # width of the signed bit-vector that stands for a Python int


def set_width(w):
    global W
    W = w


class Inconclusive(BaseException):
    """The engine cannot decide this path (cap, unknown, unmodelled call, width bound)."""


class OutOfBound(BaseException):
    """The path left the stated input domain (an `assume` failed)."""


class HarnessError(BaseException):
    """The machinery itself is wrong (never a verdict)."""


# ---------------------------------------------------------------------------------------------- engine
def _symbols_of(term):
    """Names of the uninterpreted constants (input symbols) a term mentions, as one sorted tuple."""
    seen, names, stack = set(), set(), [term]
    while stack:
        t = stack.pop()
        i = t.get_id()
        if i in seen:
            continue
        seen.add(i)
        if t.num_args() == 0:
            if t.decl().kind() == z3.Z3_OP_UNINTERPRETED:
                names.add(t.decl().name())
        else:
            stack.extend(t.children())
    return tuple(sorted(names))


class Engine:
    def __init__(self):
        self.solver = z3.Solver()
        self.timeout_ms = int(os.environ.get("VERIF_QUERY_TIMEOUT_MS", "20000"))
        self.solver.set("timeout", self.timeout_ms)
        self.trail = []  # [value, exhausted]
        self.pos = 0
        self.queries = 0
        self.sat = self.unsat = self.unknown = 0
        self.solver_time = 0.0
        self.pc = []
        self.decided = {}
        self.symbolic = False
        self.decisions = 0
        self.max_paths = 4096
        self.concretize_cap = 64
        self.inputs = {}  # name -> ("bytes", [terms]) | ("int", term) | ("choice", term)
        self.assumptions = set()
        self.funcs = set()
        self.models_used = set()
        self.fresh = 0

    # -- solver
    def check(self, *extra):
        t = time.time()
        self.queries += 1
        r = self.solver.check(*extra)
        self.solver_time += time.time() - t
        if r == z3.sat:
            self.sat += 1
        elif r == z3.unsat:
            self.unsat += 1
        else:
            self.unknown += 1
        return r

    def begin_path(self):
        self.pos = 0
        self.pc = []
        self.solver.reset()
        self.solver.set("timeout", self.timeout_ms)
        self.inputs = {}
        self.fresh = 0
        self.decided = {}
        self._keep = []

    def add(self, c):
        self.pc.append(c)
        self.solver.add(c)

    def decide(self, cond):
        """Fork on a symbolic condition; returns the branch taken on the current path."""
        cond = z3.simplify(cond)
        if z3.is_true(cond):
            return True
        if z3.is_false(cond):
            return False
        # a condition already decided on this path keeps its value (no query, no trail entry)
        neg = z3.is_not(cond)
        key = (cond.arg(0) if neg else cond).get_id()
        known = self.decided.get(key)
        if known is not None:
            return (not known) if neg else known
        v = self._decide(cond)
        self.decided[key] = (not v) if neg else v
        return v

    def _decide(self, cond):
        # fingerprint that does not depend on AST ids (simplify orders commutative arguments by id)
        h = (cond.decl().kind(), cond.num_args())
        if self.pos < _real_len(self.trail):
            v, _, h0 = self.trail[self.pos]
            # z3.simplify may give one condition two shapes in two executions ((= (bvor ..) 0) / (and (= ..) ..)): the set of
            # input symbols it mentions decides whether it is the same decision
            if h0[:2] != h and h0[2] != _symbols_of(cond):
                raise Inconclusive("non-deterministic re-execution (decision sequence changed)")
        else:
            h = h + (_symbols_of(cond),)
            r = self.check(cond)
            if r == z3.unknown:
                raise Inconclusive("solver unknown at branch")
            if r == z3.unsat:
                v = False
                self.trail.append([False, True, h])
            else:
                r2 = self.check(z3.Not(cond))
                if r2 == z3.unknown:
                    raise Inconclusive("solver unknown at branch")
                if r2 == z3.sat:
                    v = True
                    self.trail.append([True, False, h])
                    self.decisions += 1
                else:
                    v = True
                    self.trail.append([True, True, h])
        self.pos += 1
        self.add(cond if v else z3.Not(cond))
        return v

    def assume(self, cond, reason):
        """Restrict the input domain: paths violating `cond` are outside the stated bound."""
        self.assumptions.add(reason)
        if type(cond) is SBool:
            cond = cond.t
        if cond is True:
            return
        if cond is False or not self.decide(cond):
            raise OutOfBound(reason)

    def constrain(self, cond):
        """Add a precondition on fresh inputs without forking (must be satisfiable)."""
        if type(cond) is SBool:
            cond = cond.t
        if cond is True:
            return
        self.add(cond)

    def model(self):
        r = self.check()
        if r != z3.sat:
            raise Inconclusive("no model for path condition (%s)" % r)
        return self.solver.model()

    def backtrack(self):
        while self.trail and self.trail[-1][1]:
            self.trail.pop()
        if not self.trail:
            return False
        self.trail[-1] = [not self.trail[-1][0], True, self.trail[-1][2]]
        return True

    def prove(self, claim):
        """Is `claim` valid under the current path condition?  None if valid, model if refuted."""
        if type(claim) is SBool:
            claim = claim.t
        if claim is True:
            return None
        if claim is False:
            claim = z3.BoolVal(False)
        r = self.check(z3.Not(claim))
        if r == z3.unsat:
            return None
        if r == z3.sat:
            return self.solver.model()
        raise Inconclusive("solver unknown on obligation")

    # -- inputs
    def sym_bytes(self, name, n):
        terms = [z3.BitVec(f"{name}_{i}", 8) for i in range(n)]
        self.inputs[name] = ("bytes", terms)
        return SBytes(terms)

    def sym_int(self, name, lo, hi):
        t = z3.BitVec(name, W)
        self.inputs[name] = ("int", t)
        self.add(z3.And(t >= lo, t <= hi))
        return SInt(t, lo, hi)

    def choose(self, name, n):
        """Engine decision variable in range(n): every alternative becomes a path."""
        if n <= 1:
            return 0
        t = z3.BitVec(name, W)
        self.inputs[name] = ("choice", t)
        self.add(z3.And(t >= 0, t < n))
        for v in range(n - 1):
            if self.decide(t == v):
                return v
        return n - 1


ENGINE = Engine()


# ---------------------------------------------------------------------------------------------- helpers
def _blen(v):
    return abs(v).bit_length()


def _iv(x):
    """(term, lo, hi) of an int-like."""
    tx = _real_type(x)
    if tx is SInt:
        return x.t, x.lo, x.hi
    if tx is SInst:
        return _iv(x._payload)
    if tx is SBool:
        return z3.If(x.t, z3.BitVecVal(1, W), z3.BitVecVal(0, W)), 0, 1
    if tx is bool:
        return z3.BitVecVal(int(x), W), int(x), int(x)
    if _real_isinstance(x, int):
        x = int(x)
        return z3.BitVecVal(x, W), x, x
    raise TypeError(f"not int-like: {tx}")


def bv(x):
    return _iv(x)[0]


def is_intlike(x):
    tx = _real_type(x)
    if tx is SInt or tx is SBool:
        return True
    if tx is SInst:
        return is_intlike(x._payload)
    return _real_isinstance(x, int)


PROXY_TYPES = ()


def is_proxy(x):
    return _real_type(x) in PROXY_TYPES


def is_sym(x, depth=2):
    tx = _real_type(x)
    if tx in PROXY_TYPES:
        return True
    if depth and (tx is list or tx is tuple):
        for i in x:
            if is_sym(i, depth - 1):
                return True
        return False
    if depth and tx is dict:
        for i in x.values():
            if is_sym(i, depth - 1):
                return True
    return False


def mkint(t, lo, hi):
    if lo < -(1 << (W - 2)) or hi >= (1 << (W - 2)):
        raise Inconclusive("width bound exceeded (W=%d)" % W)
    if lo == hi:
        return lo
    if z3.is_bv_value(t):
        return t.as_signed_long()
    return SInt(t, lo, hi)


def mkbool(t):
    t = z3.simplify(t)
    if z3.is_true(t):
        return True
    if z3.is_false(t):
        return False
    return SBool(t)


def bterm(x):
    """z3 Bool of a bool/SBool."""
    if _real_type(x) is SBool:
        return x.t
    if x is True or x is False:
        return z3.BoolVal(x)
    if z3.is_expr(x):
        return x
    raise TypeError(f"not a condition: {type(x)}")


def And(*xs):
    xs = [x for x in xs if x is not True]
    if any(x is False for x in xs):
        return False
    if not xs:
        return True
    return mkbool(z3.And(*[bterm(x) for x in xs]))


def Or(*xs):
    xs = [x for x in xs if x is not False]
    if any(x is True for x in xs):
        return True
    if not xs:
        return False
    return mkbool(z3.Or(*[bterm(x) for x in xs]))


def Not(x):
    if x is True or x is False:
        return not x
    return mkbool(z3.Not(bterm(x)))


def Implies(a, b):
    return Or(Not(a), b)


def decide_bool(c):
    """Truth of a condition on the current path (forks when symbolic)."""
    return bool(c)


def Ite(c, a, b):
    """int-valued if-then-else without forking."""
    if c is True:
        return a
    if c is False:
        return b
    ta, la, ha = _iv(a)
    tb, lb, hb = _iv(b)
    return mkint(z3.If(bterm(c), ta, tb), min(la, lb), max(ha, hb))


# ---------------------------------------------------------------------------------------------- SBool
class SBool:
    __slots__ = ("t",)

    def __init__(self, t):
        self.t = t

    def __bool__(self):
        return ENGINE.decide(self.t)

    @property
    def __class__(self):
        return bool

    __hash__ = None

    def __repr__(self):
        return f"SBool({self.t})"


# ---------------------------------------------------------------------------------------------- SInt
def _pyfloordiv(a, b):
    q = a / b  # bvsdiv (truncating)
    r = z3.SRem(a, b)
    return z3.If(z3.And(r != 0, (r < 0) != (b < 0)), q - 1, q)


def _pymod(a, b):
    r = z3.SRem(a, b)
    return z3.If(z3.And(r != 0, (r < 0) != (b < 0)), r + b, r)


def _bitwise_iv(op, la, ha, lb, hb):
    k = max(_blen(la), _blen(ha), _blen(lb), _blen(hb))
    if la >= 0 and lb >= 0:
        if op == "and":
            return 0, min(ha, hb)
        if op == "or":
            return max(la, lb), (1 << k) - 1
        return 0, (1 << k) - 1
    if op == "and" and la >= 0:
        return 0, ha
    if op == "and" and lb >= 0:
        return 0, hb
    return -(1 << k), (1 << k) - 1


def _binop(name, a, b):
    ta, la, ha = _iv(a)
    tb, lb, hb = _iv(b)
    if name == "add":
        return mkint(ta + tb, la + lb, ha + hb)
    if name == "sub":
        return mkint(ta - tb, la - hb, ha - lb)
    if name == "mul":
        c = (la * lb, la * hb, ha * lb, ha * hb)
        return mkint(ta * tb, min(c), max(c))
    if name in ("and", "or", "xor"):
        lo, hi = _bitwise_iv(name, la, ha, lb, hb)
        t = (ta & tb) if name == "and" else (ta | tb) if name == "or" else (ta ^ tb)
        return mkint(t, lo, hi)
    if name in ("lshift", "rshift"):
        if lb < 0:
            if ENGINE.decide(tb < 0):
                raise ValueError("negative shift count")
            lb = 0
        if name == "lshift":
            if hb >= 8 and _real_type(b) is not int:
                # the interval does not see path conditions: ask the solver for a tighter bound on the count
                for cap in (8, 16, 32, 64, 128):
                    if cap > hb:
                        break
                    if ENGINE.check(tb >= cap) == z3.unsat:
                        hb = cap - 1
                        break
            if hb >= W:
                # shifting by more than the modelled width: only exact for a zero operand
                if la == 0 and ha == 0:
                    return 0
                raise Inconclusive("shift count may exceed modelled width")
            c = (la << lb, la << hb, ha << lb, ha << hb)
            return mkint(ta << tb, min(c), max(c))
        hb2 = min(hb, 4 * W)
        c = (la >> lb, la >> hb2, ha >> lb, ha >> hb2)
        return mkint(ta >> tb, min(c), max(c))
    if name in ("floordiv", "mod"):
        if lb <= 0 <= hb:
            if ENGINE.decide(tb == 0):
                raise ZeroDivisionError("integer division or modulo by zero")
        if la >= 0 and lb == hb and lb > 0 and (lb & (lb - 1)) == 0:
            # non-negative dividend, constant power-of-two divisor: shift / mask (same value, far cheaper for the solver)
            k = lb.bit_length() - 1
            if name == "floordiv":
                return mkint(z3.LShR(ta, k), la >> k, ha >> k)
            return mkint(ta & (lb - 1), 0, min(ha, lb - 1))
        if name == "floordiv":
            m = max(abs(la), abs(ha))
            return mkint(_pyfloordiv(ta, tb), -m - 1, m)
        m = max(abs(lb), abs(hb))
        return mkint(_pymod(ta, tb), -m, m)
    if name == "pow":
        if la == ha == 2 and lb >= 0:
            return _binop("lshift", 1, b)
        if _real_type(b) is int and 0 <= b <= 4:
            r = 1
            for _ in range(b):
                r = _binop("mul", r, a)
            return r
        raise Inconclusive("pow on symbolic operands")
    raise AssertionError(name)


_CMP = {
    "eq": lambda a, b: a == b, "ne": lambda a, b: a != b, "lt": lambda a, b: a < b,
    "le": lambda a, b: a <= b, "gt": lambda a, b: a > b, "ge": lambda a, b: a >= b,
}


def _cmpop(name, a, b):
    ta, la, ha = _iv(a)
    tb, lb, hb = _iv(b)
    return mkbool(_CMP[name](ta, tb))


class SInt:
    """Python int as a signed W-bit vector with an interval that proves the absence of wrap-around."""
    __slots__ = ("t", "lo", "hi")

    def __init__(self, t, lo, hi):
        self.t, self.lo, self.hi = t, lo, hi

    @property
    def __class__(self):
        return int

    def _mk(name):
        def f(self, other):
            if not is_intlike(other):
                return NotImplemented
            return _binop(name, self, other)

        def r(self, other):
            if not is_intlike(other):
                return NotImplemented
            return _binop(name, other, self)
        return f, r

    __add__, __radd__ = _mk("add")
    __sub__, __rsub__ = _mk("sub")
    __mul__, __rmul__ = _mk("mul")
    __floordiv__, __rfloordiv__ = _mk("floordiv")
    __mod__, __rmod__ = _mk("mod")
    __and__, __rand__ = _mk("and")
    __or__, __ror__ = _mk("or")
    __xor__, __rxor__ = _mk("xor")
    __lshift__, __rlshift__ = _mk("lshift")
    __rshift__, __rrshift__ = _mk("rshift")
    __pow__, __rpow__ = _mk("pow")
    del _mk

    def __mul__(self, other):  # noqa: F811  (sequence repetition: 3 * b"x")
        if is_intlike(other):
            return _binop("mul", self, other)
        if _real_isinstance(other, (bytes, bytearray, str, list, tuple)) or _real_type(other) in (SBytes, SStr):
            return other * concretize(self)
        return NotImplemented

    __rmul__ = __mul__

    def __neg__(self):
        return mkint(-self.t, -self.hi, -self.lo)

    def __pos__(self):
        return self

    def __abs__(self):
        return mkint(z3.If(self.t < 0, -self.t, self.t), 0, max(abs(self.lo), abs(self.hi)))

    def __invert__(self):
        return mkint(~self.t, ~self.hi, ~self.lo)

    def _mkc(name):
        def f(self, other):
            if not is_intlike(other):
                return NotImplemented
            return _cmpop(name, self, other)
        return f

    __eq__ = _mkc("eq")
    __ne__ = _mkc("ne")
    __lt__ = _mkc("lt")
    __le__ = _mkc("le")
    __gt__ = _mkc("gt")
    __ge__ = _mkc("ge")
    del _mkc
    __hash__ = None

    def __bool__(self):
        return ENGINE.decide(self.t != 0)

    def __index__(self):
        return concretize(self)

    __int__ = __index__

    def __str__(self):
        return str(concretize(self))

    __repr__ = __str__

    def __format__(self, spec):
        return format(concretize(self), spec)

    def __truediv__(self, other):
        raise Inconclusive("float division on symbolic int")

    __rtruediv__ = __truediv__

    def __float__(self):
        raise Inconclusive("float() of symbolic int")

    def to_bytes(self, length=1, byteorder="big", *, signed=False):
        ENGINE.models_used.add("int.to_bytes")
        length = concretize(length) if _real_type(length) is SInt else length
        lo, hi = (-(1 << (8 * length - 1)), (1 << (8 * length - 1)) - 1) if signed else (0, (1 << (8 * length)) - 1)
        if length == 0:
            lo = hi = 0
        fits = z3.And(self.t >= lo, self.t <= hi)
        if not ENGINE.decide(fits):
            raise OverflowError("int too big to convert")
        items = [mkbyte(z3.Extract(8 * i + 7, 8 * i, self.t)) for i in range(length)]
        if byteorder == "big":
            items.reverse()
        elif byteorder != "little":
            raise ValueError("byteorder must be either 'little' or 'big'")
        return SBytes(items)

    def bit_length(self):
        ENGINE.models_used.add("int.bit_length")
        k = max(_blen(self.lo), _blen(self.hi))
        a = z3.If(self.t < 0, -self.t, self.t)
        r = z3.BitVecVal(0, W)
        for i in range(1, k + 1):
            r = z3.If(z3.UGE(a, z3.BitVecVal(1 << (i - 1), W)), z3.BitVecVal(i, W), r)
        return mkint(r, 0, k)

    def conjugate(self):
        return self

    @property
    def real(self):
        return self

    @property
    def imag(self):
        return 0

    @property
    def numerator(self):
        return self

    @property
    def denominator(self):
        return 1


def mkbyte(t):
    t = z3.simplify(t)
    if z3.is_bv_value(t):
        return t.as_long()
    return t


def b8(x):
    return z3.BitVecVal(x, 8) if _real_type(x) is int else x


def b16(x):
    return z3.BitVecVal(x, 16) if _real_type(x) is int else x


def from_bytes(sb, byteorder="big", signed=False):
    ENGINE.models_used.add("int.from_bytes")
    items = tobytes_items(sb)
    if byteorder == "little":
        items = items[::-1]
    elif byteorder != "big":
        raise ValueError("byteorder must be either 'little' or 'big'")
    n = 8 * _real_len(items)
    if not items:
        return 0
    if all(_real_type(i) is int for i in items):
        return int.from_bytes(bytes(items), "big", signed=signed)
    terms = [b8(i) for i in items]
    t = z3.Concat(*terms) if _real_len(terms) > 1 else terms[0]
    if n > W - 2:
        raise Inconclusive("from_bytes wider than modelled int")
    if signed:
        return mkint(z3.SignExt(W - n, t), -(1 << (n - 1)), (1 << (n - 1)) - 1)
    return mkint(z3.ZeroExt(W - n, t), 0, (1 << n) - 1)


def concretize(x, cap=None):
    """Fork over the feasible concrete values of a symbolic int (bounded number of alternatives)."""
    tx = _real_type(x)
    if tx is SInst:
        x = x._payload
        tx = _real_type(x)
    if tx is SBool:
        return bool(x)
    if tx is not SInt:
        return int(x)
    t = x.t
    cap = cap or ENGINE.concretize_cap
    # Deterministic order (re-execution must meet the same decisions): ascending feasible values.
    if x.hi - x.lo < 16:
        for v in range(x.lo, x.hi + 1):
            if ENGINE.decide(t == v):
                return v
        raise Inconclusive("no feasible value in the interval")
    for _ in range(cap):
        m = ENGINE.model()
        v = m.eval(t, model_completion=True).as_signed_long()
        while True:  # descend to the least feasible value
            r = ENGINE.check(t < v)
            if r == z3.unsat:
                break
            if r != z3.sat:
                raise Inconclusive("solver unknown while concretising")
            v = ENGINE.solver.model().eval(t, model_completion=True).as_signed_long()
        if ENGINE.decide(t == v):
            return v
    raise Inconclusive("concretisation cap exceeded")


# ---------------------------------------------------------------------------------------------- SBytes
def tobytes_items(x):
    tx = _real_type(x)
    if tx is SBytes:
        return list(x.items)
    if tx is SInst:
        return tobytes_items(x._payload)
    if tx is SByteArray:
        return list(x.items)
    if _real_isinstance(x, (bytes, bytearray, memoryview)):
        return list(bytes(x))
    if tx is list or tx is tuple:
        out = []
        for i in x:
            if _real_type(i) is int:
                if not 0 <= i < 256:
                    raise ValueError("bytes must be in range(0, 256)")
                out.append(i)
            elif _real_type(i) in (SInt, SInst):
                t, lo, hi = _iv(i)
                if lo < 0 or hi > 255:
                    if not ENGINE.decide(z3.And(t >= 0, t <= 255)):
                        raise ValueError("bytes must be in range(0, 256)")
                out.append(mkbyte(z3.Extract(7, 0, t)))
            else:
                raise TypeError(f"cannot convert {type(i)} to byte")
        return out
    raise TypeError(f"a bytes-like object is required, not {tx.__name__}")


class SBytes:
    """bytes / bytearray / memoryview with a concrete length and symbolic content."""

    def __init__(self, items, kind=bytes):
        self.items = list(items)
        self.kind = kind

    @property
    def __class__(self):
        return self.kind

    def __len__(self):
        return _real_len(self.items)

    def __getitem__(self, i):
        if _real_isinstance(i, slice):
            return SBytes(self.items[i], self.kind)
        if _real_type(i) in (SInt, SInst):
            i = concretize(i)
        it = self.items[i]
        return it if _real_type(it) is int else SInt(z3.ZeroExt(W - 8, it), 0, 255)

    def __iter__(self):
        for k in range(_real_len(self.items)):
            yield self[k]

    def __add__(self, other):
        try:
            return SBytes(self.items + tobytes_items(other), self.kind)
        except TypeError:
            return NotImplemented

    def __radd__(self, other):
        try:
            return SBytes(tobytes_items(other) + self.items, self.kind)
        except TypeError:
            return NotImplemented

    def __mul__(self, n):
        return SBytes(self.items * int(n), self.kind)

    __rmul__ = __mul__

    def __eq__(self, other):
        if not (_real_isinstance(other, (bytes, bytearray, memoryview)) or _real_type(other) in (SBytes, SInst, SByteArray)):
            return NotImplemented
        try:
            o = tobytes_items(other)
        except TypeError:
            return NotImplemented
        if _real_len(o) != _real_len(self.items):
            return False
        return mkbool(z3.And(*[b8(a) == b8(b) for a, b in zip(self.items, o)])) if o else True

    def __ne__(self, other):
        r = self.__eq__(other)
        if r is NotImplemented:
            return r
        return Not(r)

    __hash__ = None

    def __bool__(self):
        return _real_len(self.items) > 0

    def __bytes__(self):
        raise Inconclusive("C-level conversion of symbolic bytes")

    def __repr__(self):
        return f"SBytes({self.items})"

    def __contains__(self, x):
        raise Inconclusive("`in` on symbolic bytes")

    def decode(self, encoding="utf-8", errors="strict"):
        return decode_model(self, encoding)

    def join(self, parts):
        return join_model(self, parts)

    def hex(self, *a):
        raise Inconclusive("bytes.hex on symbolic bytes")

    def tobytes(self):
        return SBytes(self.items, bytes)

    def startswith(self, prefix):
        p = tobytes_items(prefix)
        if _real_len(p) > _real_len(self.items):
            return False
        return bool(SBytes(self.items[:_real_len(p)]) == SBytes(p))

    def ljust(self, width, fillbyte=b" "):
        n = _real_len(self.items)
        return _mkbytes(self.items + tobytes_items(fillbyte) * max(0, width - n))

    def endswith(self, suffix):
        p = tobytes_items(suffix)
        if _real_len(p) > _real_len(self.items):
            return False
        return bool(SBytes(self.items[_real_len(self.items) - _real_len(p):]) == SBytes(p))

    def find(self, sub, start=0, end=None):
        """First position of `sub` (one fork per candidate position)."""
        ENGINE.models_used.add("bytes.find/index/partition on symbolic bytes (one branch per position)")
        p = tobytes_items([sub] if _real_isinstance(sub, int) else sub)
        n, m = _real_len(self.items), _real_len(p)
        start, end, _ = slice(start, end).indices(n)
        for i in range(start, end - m + 1):
            if bool(SBytes(self.items[i:i + m]) == SBytes(p)):
                return i
        return -1

    def index(self, sub, start=0, end=None):
        i = self.find(sub, start, end)
        if i < 0:
            raise ValueError("subsection not found")
        return i

    def partition(self, sep):
        i = self.find(sep)
        if i < 0:
            return _mkbytes(self.items), b"", b""
        m = _real_len(tobytes_items(sep))
        return _mkbytes(self.items[:i]), bytes(sep), _mkbytes(self.items[i + m:])

    def count(self, sub):
        p = tobytes_items([sub] if _real_isinstance(sub, int) else sub)
        n, m, c, i = _real_len(self.items), _real_len(p), 0, 0
        if m == 0:
            return n + 1
        while i <= n - m:
            if bool(SBytes(self.items[i:i + m]) == SBytes(p)):
                c += 1
                i += m
            else:
                i += 1
        return c


class SByteArray:
    """bytearray() created inside instrumented code (the LEB128 writer appends symbolic bytes)."""

    def __init__(self, items=()):
        self.items = list(items)

    @property
    def __class__(self):
        return bytearray

    def append(self, x):
        self.items.extend(tobytes_items([x]))

    def extend(self, x):
        self.items.extend(tobytes_items(x))

    def __len__(self):
        return _real_len(self.items)

    def __getitem__(self, i):
        return SBytes(self.items, bytearray)[i]

    def __setitem__(self, i, v):
        if _real_type(i) is slice:
            self.items[i] = tobytes_items(v)
            return
        i = concretize(i) if _real_type(i) is not int else i
        if not -_real_len(self.items) <= i < _real_len(self.items):
            raise IndexError("bytearray index out of range")
        self.items[i] = tobytes_items([v])[0]

    def __iter__(self):
        return iter(SBytes(self.items, bytearray))

    def __eq__(self, other):
        return SBytes(self.items) == other

    def __add__(self, other):
        return SBytes(self.items + tobytes_items(other), bytearray)

    __hash__ = None

    def __bool__(self):
        return _real_len(self.items) > 0


def join_model(sep, parts):
    ENGINE.models_used.add("bytes.join")
    out = []
    sep_items = tobytes_items(sep)
    for i, part in enumerate(parts):
        if i:
            out.extend(sep_items)
        out.extend(tobytes_items(part))
    return SBytes(out)


# ---------------------------------------------------------------------------------------------- SStr
def _is_surrogate(u):
    return z3.And(z3.UGE(u, z3.BitVecVal(0xD800, 16)), z3.ULE(u, z3.BitVecVal(0xDFFF, 16)))


class SStr:
    """str whose characters are BMP code units (16-bit terms or ints)."""

    def __init__(self, items):
        self.items = list(items)

    @property
    def __class__(self):
        return str

    def __len__(self):
        return _real_len(self.items)

    def __getitem__(self, i):
        if _real_isinstance(i, slice):
            return SStr(self.items[i])
        return SStr([self.items[i]])

    def __iter__(self):
        for it in self.items:
            yield SStr([it])

    def __add__(self, other):
        o = tostr_items(other)
        return SStr(self.items + o)

    def __radd__(self, other):
        return SStr(tostr_items(other) + self.items)

    def __mul__(self, n):
        return SStr(self.items * int(n))

    def __eq__(self, other):
        if not (_real_isinstance(other, str) or _real_type(other) in (SStr, SInst)):
            return NotImplemented
        o = tostr_items(other)
        if _real_len(o) != _real_len(self.items):
            return False
        return mkbool(z3.And(*[b16(a) == b16(b) for a, b in zip(self.items, o)])) if o else True

    def __ne__(self, other):
        r = self.__eq__(other)
        return r if r is NotImplemented else Not(r)

    __hash__ = None

    def __bool__(self):
        return _real_len(self.items) > 0

    def __str__(self):
        raise Inconclusive("C-level conversion of symbolic str")

    def __repr__(self):
        return f"SStr({self.items})"

    def ljust(self, width, fillchar=" "):
        return SStr(self.items + [ord(fillchar)] * max(0, width - _real_len(self.items)))

    def encode(self, encoding="utf-8", errors="strict"):
        return encode_model(self, encoding)


def tostr_items(x):
    tx = _real_type(x)
    if tx is SStr:
        return list(x.items)
    if tx is SInst:
        return tostr_items(x._payload)
    if _real_isinstance(x, str):
        out = []
        for ch in str(x):
            if ord(ch) > 0xFFFF:
                raise Inconclusive("non-BMP character in str model")
            out.append(ord(ch))
        return out
    raise TypeError(f"can only concatenate str (not {tx.__name__}) to str")


_UTF16 = {"utf-16-le": "little", "utf-16-be": "big", "utf_16_le": "little", "utf_16_be": "big"}


def decode_model(sb, encoding):
    ENGINE.models_used.add("bytes.decode")
    items = tobytes_items(sb)
    enc = encoding.lower()
    if enc in _UTF16:
        if _real_len(items) % 2:
            # CPython raises UnicodeDecodeError("truncated data")
            raise UnicodeDecodeError(enc, b"", 0, 1, "truncated data")
        units = []
        for i in range(0, _real_len(items), 2):
            lo, hi = (items[i], items[i + 1]) if _UTF16[enc] == "little" else (items[i + 1], items[i])
            if _real_type(lo) is int and _real_type(hi) is int:
                u = (hi << 8) | lo
                if 0xD800 <= u <= 0xDFFF:
                    raise OutOfBound("wchar units restricted to non-surrogate BMP code units")
                units.append(u)
            else:
                u = z3.simplify(z3.Concat(b8(hi), b8(lo)))
                ENGINE.assume(z3.Not(_is_surrogate(u)), "wchar units restricted to non-surrogate BMP code units")
                units.append(u)
        return SStr(units)
    if enc in ("latin-1", "latin1", "iso-8859-1"):
        return SStr([i if _real_type(i) is int else z3.ZeroExt(8, i) for i in items])
    raise Inconclusive(f"unmodelled decode {encoding}")


def encode_model(s, encoding):
    ENGINE.models_used.add("str.encode")
    items = tostr_items(s)
    enc = encoding.lower()
    if enc in _UTF16:
        out = []
        for u in items:
            if _real_type(u) is int:
                if 0xD800 <= u <= 0xDFFF:
                    raise UnicodeEncodeError(enc, "", 0, 1, "surrogates not allowed")
                lo, hi = u & 0xFF, u >> 8
            else:
                ENGINE.assume(z3.Not(_is_surrogate(u)), "wchar units restricted to non-surrogate BMP code units")
                lo, hi = mkbyte(z3.Extract(7, 0, u)), mkbyte(z3.Extract(15, 8, u))
            out.extend((lo, hi) if _UTF16[enc] == "little" else (hi, lo))
        return SBytes(out)
    if enc in ("utf-8", "utf8", "utf_8"):
        out = []
        for u in items:
            if _real_type(u) is int:
                out.extend(chr(u).encode("utf-8"))
                continue
            ENGINE.assume(z3.Not(_is_surrogate(u)), "wchar units restricted to non-surrogate BMP code units")
            w = z3.ZeroExt(16, u)
            if ENGINE.decide(z3.ULT(u, z3.BitVecVal(0x80, 16))):
                out.append(mkbyte(z3.Extract(7, 0, u)))
            elif ENGINE.decide(z3.ULT(u, z3.BitVecVal(0x800, 16))):
                out.append(mkbyte(z3.Extract(7, 0, 0xC0 | z3.LShR(w, 6))))
                out.append(mkbyte(z3.Extract(7, 0, 0x80 | (w & 0x3F))))
            else:
                out.append(mkbyte(z3.Extract(7, 0, 0xE0 | z3.LShR(w, 12))))
                out.append(mkbyte(z3.Extract(7, 0, 0x80 | (z3.LShR(w, 6) & 0x3F))))
                out.append(mkbyte(z3.Extract(7, 0, 0x80 | (w & 0x3F))))
        return SBytes(out)
    if enc in ("latin-1", "latin1", "iso-8859-1"):
        out = []
        for u in items:
            if _real_type(u) is int:
                if u > 255:
                    raise UnicodeEncodeError(enc, "", 0, 1, "ordinal not in range(256)")
                out.append(u)
            else:
                if not ENGINE.decide(z3.ULE(u, z3.BitVecVal(255, 16))):
                    raise UnicodeEncodeError(enc, "", 0, 1, "ordinal not in range(256)")
                out.append(mkbyte(z3.Extract(7, 0, u)))
        return SBytes(out)
    raise Inconclusive(f"unmodelled encode {encoding}")


# ---------------------------------------------------------------------------------------------- SFloat
_FBITS = {"e": 16, "f": 32, "d": 64}
_FEXP = {"e": (10, 5), "f": (23, 8), "d": (52, 11)}


class SFloat:
    """float produced by struct codes e/f/d: opaque raw bits; only bit identity is modelled."""

    def __init__(self, bits, code):
        self.bits, self.code = bits, code

    @property
    def __class__(self):
        return float

    def _nonzero(self):
        n = _FBITS[self.code]
        return z3.Extract(n - 2, 0, self.bits) != 0

    def __bool__(self):
        return ENGINE.decide(self._nonzero())

    def __eq__(self, other):
        if _real_type(other) is SInst:
            other = other._payload
        if _real_type(other) is SFloat and other.code == self.code:
            # non-NaN floats: equal iff same bits or both zero
            return mkbool(z3.Or(self.bits == other.bits, z3.And(z3.Not(self._nonzero()), z3.Not(other._nonzero()))))
        raise Inconclusive("float comparison outside the bit-identity model")

    def __ne__(self, other):
        return Not(self.__eq__(other))

    __hash__ = None

    def __float__(self):
        raise Inconclusive("C-level use of symbolic float")

    def __repr__(self):
        return f"SFloat({self.code})"


def _float_not_nan(bits, code):
    m, e = _FEXP[code]
    exp = z3.Extract(m + e - 1, m, bits)
    man = z3.Extract(m - 1, 0, bits)
    return z3.Not(z3.And(exp == z3.BitVecVal((1 << e) - 1, e), man != 0))


# ---------------------------------------------------------------------------------------------- SInst
_BUILTIN_BASES = (int, bytes, str, float, object)
_FWD = ["__add__", "__radd__", "__sub__", "__rsub__", "__mul__", "__rmul__", "__and__", "__rand__", "__or__", "__ror__",
        "__xor__", "__rxor__", "__lshift__", "__rlshift__", "__rshift__", "__rrshift__", "__neg__", "__invert__", "__pos__",
        "__abs__", "__floordiv__", "__rfloordiv__", "__mod__", "__rmod__", "__pow__", "__rpow__", "__truediv__",
        "__eq__", "__ne__", "__lt__", "__le__", "__gt__", "__ge__", "__bool__", "__len__", "__getitem__", "__iter__",
        "__index__", "__int__", "__bytes__", "__str__", "__format__", "__float__", "__contains__"]


def _find_in_mro(cls, name):
    for k in cls.__mro__:
        if name in k.__dict__:
            return k, k.__dict__[name]
    return None, None


class SInst:
    """Instance of a real class `cls` (subclass of int/bytes/str/float) whose payload is symbolic."""

    def __init__(self, cls, payload):
        object.__setattr__(self, "_cls", cls)
        object.__setattr__(self, "_payload", payload)

    @property
    def __class__(self):
        return self._cls

    def __getattr__(self, name):
        cls = object.__getattribute__(self, "_cls")
        k, a = _find_in_mro(cls, name)
        if k is not None:
            if k in _BUILTIN_BASES:
                return getattr(object.__getattribute__(self, "_payload"), name)
            if hasattr(a, "__get__"):
                return a.__get__(self, cls)
            return a
        if name.startswith("__") and name.endswith("__"):
            raise AttributeError(name)
        k, ga = _find_in_mro(cls, "__getattr__")
        if k is not None and k not in _BUILTIN_BASES:
            return ga(self, name)
        raise AttributeError(name)

    def _fwd(name):
        def f(self, *a):
            cls = object.__getattribute__(self, "_cls")
            k, fn = _find_in_mro(cls, name)
            if k is not None and k not in _BUILTIN_BASES and k.__module__ != "enum" and isinstance(fn, _types.FunctionType):
                return fn(self, *a)
            p = object.__getattribute__(self, "_payload")
            m = getattr(type(p), name, None)
            if m is None:
                return NotImplemented
            return m(p, *a)
        f.__name__ = name
        return f

    for _n in _FWD:
        locals()[_n] = _fwd(_n)
    del _n, _fwd
    __hash__ = None

    def __repr__(self):
        return f"SInst({self._cls.__name__}, {self._payload!r})"

    def to_bytes(self, *a, **k):
        return self._payload.to_bytes(*a, **k)

    def bit_length(self):
        return self._payload.bit_length()

    def encode(self, *a, **k):
        return self._payload.encode(*a, **k)

    def decode(self, *a, **k):
        return self._payload.decode(*a, **k)


def payload(x):
    return x._payload if _real_type(x) is SInst else x


# ---------------------------------------------------------------------------------------------- streams
def _mkbytes(items):
    """Real bytes when nothing is symbolic (keeps concrete data on the native path)."""
    for i in items:
        if _real_type(i) is not int:
            return SBytes(items, bytes)
    return bytes(items)


class _Buffer:
    def __init__(self, n):
        self.nbytes = n

    def __len__(self):
        return self.nbytes


class _BytesIOSubclass(_io.BytesIO):
    """What type() reports for a harness-made SymStream (concretely a LoggedBytesIO): a proper subclass of io.BytesIO."""


class SymStream:
    """Seekable binary stream over symbolic content; logs every operation."""

    exact = False

    def __init__(self, data=(), pos=0):
        self.data = data if _real_type(data) is SBytes else SBytes(tobytes_items(data))
        self.pos = pos
        self.log = []
        self.closed = False

    @property
    def __class__(self):
        return _io.BytesIO      # code that special-cases io.BytesIO takes the same branch as on the real object

    def getbuffer(self):
        return _Buffer(_real_len(self.data))

    def _n(self, n):
        if _real_type(n) in (SInt, SInst):
            avail = _real_len(self.data) - self.pos
            t, lo, hi = _iv(n)
            # any n beyond the available bytes behaves identically (short read)
            if hi > avail and ENGINE.decide(t > avail):
                return avail + 1
            if lo < 0 and ENGINE.decide(t < 0):
                return -1
            n = concretize(n)
        return n

    def read(self, n=-1):
        n = self._n(n)
        if n is None or n < 0:
            out = self.data[self.pos:]
        else:
            out = self.data[self.pos:self.pos + n]
        self.log.append(("read", self.pos, n, _real_len(out)))
        self.pos += _real_len(out)
        return _mkbytes(out.items)

    def tell(self):
        return self.pos

    def seek(self, off, whence=0):
        if _real_type(off) in (SInt, SInst):
            t, lo, hi = _iv(off)
            end = _real_len(self.data)
            if hi > (1 << 63) - 1 and ENGINE.decide(t > (1 << 63) - 1):
                raise OverflowError("Python int too large to convert to C ssize_t")  # as io.BytesIO.seek does
            if whence == 0 and hi > end and ENGINE.decide(t > end):
                # every position beyond the end behaves alike for reading (empty reads)
                self.pos = end + 1
                self.log.append(("seek", self.pos))
                return self.pos
            off = concretize(off)
        if whence == 0:
            if off < 0:
                raise ValueError(f"negative seek value {off}")
            self.pos = off
        elif whence == 1:
            self.pos = max(0, self.pos + off)
        else:
            self.pos = max(0, _real_len(self.data) + off)
        self.log.append(("seek", self.pos))
        return self.pos

    def write(self, b):
        items = tobytes_items(b)
        d = self.data.items
        if self.pos > _real_len(d):
            d = d + [0] * (self.pos - _real_len(d))
        self.data = SBytes(d[:self.pos] + items + d[self.pos + _real_len(items):])
        self.log.append(("write", self.pos, _real_len(items)))
        self.pos += _real_len(items)
        return _real_len(items)

    def getvalue(self):
        return _mkbytes(self.data.items)

    def truncate(self, size=None):
        size = self.pos if size is None else concretize(size)
        if size < 0:
            raise ValueError(f"negative size value {size}")
        if size < _real_len(self.data):
            self.data = SBytes(self.data.items[:size])
        self.log.append(("truncate", size))
        return size

    def readinto(self, b):
        out = self.data[self.pos:self.pos + _real_len(b)]
        n = _real_len(out)
        if _real_type(b) is SByteArray:
            b.items[:n] = out.items
        elif all(_real_type(i) is int for i in out.items):
            b[:n] = bytes(out.items)
        else:
            raise Inconclusive("readinto() a native buffer with symbolic bytes")
        self.log.append(("read", self.pos, _real_len(b), n))
        self.pos += n
        return n

    def seekable(self):
        return True

    def readable(self):
        return True

    def writable(self):
        return True

    def close(self):
        self.closed = True

    def __enter__(self):
        return self

    def __exit__(self, *a):
        self.close()


class BasedStream(SymStream):
    """Stream whose absolute start offset is a symbolic base p: position = p + concrete delta.
    Bytes before p are unconstrained junk (fresh symbols on demand)."""

    def __init__(self, data, base, junk_prefix="junk"):
        super().__init__(data)
        self.base = base
        self.junk = {}
        self.junk_prefix = junk_prefix

    def tell(self):
        return _binop("add", self.base, self.pos)

    def _rel(self, off):
        rel = _binop("sub", off, self.base)
        if _real_type(rel) is not int:
            rel = concretize(rel)
        return rel

    def read(self, n=-1):
        if self.pos < 0:
            # reading (partly) before p: junk bytes, each a fresh unconstrained symbol
            n = self._n(n)
            if n is None or n < 0:
                raise Inconclusive("unbounded read before the symbolic base")
            out = []
            for k in range(n):
                q = self.pos + k
                if q < 0:
                    if q not in self.junk:
                        self.junk[q] = z3.BitVec(f"{self.junk_prefix}_{-q}", 8)
                    out.append(self.junk[q])
                elif q < _real_len(self.data):
                    out.append(self.data.items[q])
            self.log.append(("read", self.pos, n, _real_len(out)))
            self.pos += _real_len(out)
            return SBytes(out)
        return super().read(n)

    def seek(self, off, whence=0):
        if whence == 0:
            self.pos = self._rel(off)
        elif whence == 1:
            if _real_type(off) in (SInt, SInst):
                off = concretize(off)
            self.pos += off
        else:
            if _real_type(off) in (SInt, SInst):
                off = concretize(off)
            self.pos = _real_len(self.data) + off
        self.log.append(("seek", self.pos))
        return self.tell()


class FaultStream(SymStream):
    """The k-th read (k chosen by the harness) returns fewer bytes than asked, or raises."""

    def __init__(self, data, fault_at, mode, short_by=1):
        super().__init__(data)
        self.fault_at, self.mode, self.short_by = fault_at, mode, short_by
        self.nreads = 0
        self.fired = False

    def read(self, n=-1):
        k = self.nreads
        self.nreads += 1
        if k == self.fault_at:
            self.fired = True
            if self.mode == "raise":
                raise OSError("injected stream fault")
            n = self._n(n)
            if n is None or n < 0:
                n = _real_len(self.data) - self.pos
            return super().read(max(0, n - self.short_by))
        return super().read(n)


# ---------------------------------------------------------------------------------------------- struct model
_CODES = {"b": (1, True), "B": (1, False), "h": (2, True), "H": (2, False), "i": (4, True), "I": (4, False),
          "l": (4, True), "L": (4, False), "q": (8, True), "Q": (8, False), "c": (1, None), "?": (1, None),
          "e": (2, "float"), "f": (4, "float"), "d": (8, "float")}


def parse_fmt(fmt):
    if fmt[0] not in "<>!=@":
        raise Inconclusive(f"struct format {fmt!r} without byte-order prefix not modelled")
    if fmt[0] == "@" and _real_len([c for c in fmt[1:] if not c.isdigit()]) != 1:
        raise Inconclusive(f"native struct format {fmt!r} with several codes (alignment) not modelled")
    native_little = _struct_mod.pack("=H", 1)[0] == 1
    order = "little" if fmt[0] == "<" or (fmt[0] in "=@" and native_little) else "big"
    out, num = [], ""
    for ch in fmt[1:]:
        if ch.isdigit():
            num += ch
            continue
        if ch.isspace():
            continue
        n = int(num) if num else 1
        num = ""
        if ch == "s" or ch == "p":
            raise Inconclusive("struct s/p codes not modelled")
        out.extend([ch] * n)
    return order, out


def model_unpack(st, data):
    ENGINE.models_used.add("struct.Struct.unpack")
    order, codes = parse_fmt(st.format)
    native = st.format[0] == "@"
    items = tobytes_items(data)
    if _real_len(items) != st.size:
        raise _struct_mod.error("unpack requires a buffer of %d bytes" % st.size)
    pos, res = 0, []
    for ch in codes:
        if ch == "x":
            pos += 1
            continue
        size, kind = _CODES[ch]
        if native:
            size = _struct_mod.calcsize("@" + ch)
        chunk = items[pos:pos + size]
        pos += size
        if kind == "float":
            if all(_real_type(i) is int for i in chunk):
                res.append(_struct_mod.unpack(st.format[0] + ch, bytes(chunk))[0])
                continue
            terms = [b8(i) for i in (chunk[::-1] if order == "little" else chunk)]
            bits = z3.Concat(*terms)
            ENGINE.assume(_float_not_nan(bits, ch), "floats restricted to non-NaN bit patterns")
            res.append(SFloat(bits, ch))
        elif kind is None:
            raise Inconclusive(f"struct code {ch} not modelled")
        else:
            res.append(from_bytes(SBytes(chunk), order, kind))
    return tuple(res)


def model_pack(st, *vals):
    ENGINE.models_used.add("struct.Struct.pack")
    order, codes = parse_fmt(st.format)
    native = st.format[0] == "@"
    out = []
    vals = list(vals)
    nvals = sum(1 for c in codes if c != "x")
    if nvals != _real_len(vals):
        raise _struct_mod.error("pack expected %d items for packing (got %d)" % (nvals, _real_len(vals)))
    for ch in codes:
        if ch == "x":
            out.append(0)
            continue
        size, kind = _CODES[ch]
        if native:
            size = _struct_mod.calcsize("@" + ch)
        v = payload(vals.pop(0))
        if kind == "float":
            if _real_type(v) is SFloat:
                if v.code != ch:
                    raise Inconclusive("float re-packed with a different width")
                bits = v.bits
                bl = [mkbyte(z3.Extract(8 * i + 7, 8 * i, bits)) for i in range(size)]
                out.extend(bl if order == "little" else bl[::-1])
            elif _real_type(v) in (SInt, SBool):
                raise Inconclusive("symbolic int packed as float")
            else:
                out.extend(_struct_mod.pack(st.format[0] + ch, v))
            continue
        if kind is None:
            raise Inconclusive(f"struct code {ch} not modelled")
        if _real_type(v) is SFloat or _real_isinstance(v, float):
            raise _struct_mod.error("required argument is not an integer")
        if _real_type(v) is SBool:
            v = Ite(v, 1, 0)
        if _real_type(v) is not SInt:
            if not _real_isinstance(v, int):
                if hasattr(v, "__index__"):
                    v = v.__index__()
                else:
                    raise _struct_mod.error("required argument is not an integer")
            try:
                out.extend(int(v).to_bytes(size, order, signed=kind))
            except OverflowError:
                raise _struct_mod.error("argument out of range") from None
            continue
        try:
            out.extend(v.to_bytes(size, order, signed=kind).items)
        except OverflowError:
            raise _struct_mod.error("argument out of range") from None
    return SBytes(out)


# ---------------------------------------------------------------------------------------------- hash model
_HFUN = {}
_INTERN = {}


def _hfun(k):
    if (k, W) not in _HFUN:
        _HFUN[(k, W)] = z3.Function(f"H{k}_{W}", *([z3.BitVecSort(W)] * k), z3.BitVecSort(W))
    return _HFUN[(k, W)]


def _hkey(x):
    """Argument term that stands for tuple element `x` inside the hash UF (ints by value, so that a
    concrete 5 and a symbolic int equal to 5 are congruent; other hashables by interned identity)."""
    tx = _real_type(x)
    if tx is SInst:
        k, fn = _find_in_mro(x._cls, "__hash__")
        if k is not None and k not in _BUILTIN_BASES and k.__module__ != "enum" and isinstance(fn, _types.FunctionType):
            return bv(fn(x))
        return _hkey(x._payload)
    if tx is SInt or tx is SBool:
        return bv(x)
    if tx in (SBytes, SStr, SFloat, SByteArray):
        return bv(vhash(x))
    if tx is tuple or _has_struct(x):
        return bv(vhash(x))
    if _real_isinstance(x, int) and not _real_isinstance(x, _enum.Enum):
        return bv(int(x))
    key = (tx, x)
    _real_hash(x)
    if key not in _INTERN:
        _INTERN[key] = _real_len(_INTERN) + (1 << 70)
    return z3.BitVecVal(_INTERN[key], W)


def _hint(t):
    return SInt(t, -(1 << 63), (1 << 63) - 1)


def model_hash(tup):
    ENGINE.models_used.add("hash (uninterpreted function, congruence only)")
    args = [_hkey(e) for e in tup]
    if not args:
        return _real_hash(())
    return _hint(_hfun(_real_len(args))(*args))


def vhash(x):
    """builtins.hash replacement: uninterpreted-function terms for values containing proxies."""
    tx = _real_type(x)
    if tx is tuple:
        if is_sym(x, 3) or any(_has_struct(e) for e in x):
            return model_hash(x)
        return _real_hash(x)
    if tx in PROXY_TYPES:
        ENGINE.models_used.add("hash (uninterpreted function, congruence only)")
        if tx is SInst:
            k, fn = _find_in_mro(x._cls, "__hash__")
            if k is not None and k not in _BUILTIN_BASES and k.__module__ != "enum" and isinstance(fn, _types.FunctionType):
                return fn(x)
            return vhash(x._payload)
        if tx is SInt or tx is SBool:
            return _hint(_hfun(1)(bv(x)))
        if tx is SFloat:
            return _hint(_hfun(2)(z3.BitVecVal(9, W), z3.ZeroExt(W - _FBITS[x.code], x.bits)))
        wide = [z3.ZeroExt(W - 16, b16(i)) if tx is SStr else z3.ZeroExt(W - 8, b8(i)) for i in x.items]
        if not wide:
            return _real_hash(b"" if tx is not SStr else "")
        return _hint(_hfun(_real_len(wide) + 1)(z3.BitVecVal(8 if tx is SStr else 7, W), *wide))
    if _has_struct(x):
        fn = _real_type(x).__hash__
        if fn is None:
            raise TypeError(f"unhashable type: '{_real_type(x).__name__}'")
        return fn(x)
    return _real_hash(x)


_STRUCT_BASE = [None]


def _has_struct(x):
    if not ENGINE.symbolic:
        return False
    b = _STRUCT_BASE[0]
    if b is None:
        import sys
        m = sys.modules.get("dissect.cstruct.types.structure")
        if m is None:
            return False
        b = _STRUCT_BASE[0] = m.Structure
    return _real_isinstance(x, b)


# ---------------------------------------------------------------------------------------------- dispatcher
_INT_SLOTS = {}
for _name in ("__add__", "__sub__", "__mul__", "__floordiv__", "__mod__", "__pow__", "__lshift__", "__rshift__",
              "__and__", "__xor__", "__or__", "__neg__", "__invert__", "__eq__", "__ne__", "__lt__", "__le__", "__gt__",
              "__ge__", "__radd__", "__rsub__", "__rmul__", "__rand__", "__ror__", "__rxor__", "__abs__", "__index__",
              "__int__", "__bool__"):
    _INT_SLOTS[getattr(int, _name)] = _name

_NATIVE_OK = {
    builtins.isinstance, builtins.issubclass, builtins.hasattr, builtins.getattr, builtins.setattr, builtins.delattr,
    builtins.repr, builtins.id, builtins.callable, builtins.iter, builtins.next, builtins.zip, builtins.enumerate,
    builtins.map, builtins.filter, builtins.reversed, builtins.list, builtins.tuple, builtins.dict, builtins.print,
    builtins.type, object.__setattr__, object.__getattribute__, object.__new__, builtins.sorted, builtins.property,
    builtins.classmethod, builtins.staticmethod, builtins.format, builtins.vars, builtins.set, builtins.frozenset,
}
_CONTAINER_TYPES = (list, dict, tuple, set)
_PY_CALLABLE = (_types.FunctionType, _types.MethodType, _types.LambdaType)
_BytesIO = _io.BytesIO
_ENUM_META_CALL = _enum.EnumMeta.__call__


def _note(f):
    m = getattr(f, "__module__", None)
    if m is not None and m.startswith("dissect.cstruct"):
        ENGINE.funcs.add(f"{m}.{getattr(f, '__qualname__', getattr(f, '__name__', '?'))}")
    else:
        code = getattr(f, "__code__", None)
        if code is not None and code.co_filename.startswith("<compiled"):
            ENGINE.funcs.add(code.co_filename)


def dispatch(f, /, *a, **k):
    tf = _real_type(f)
    if tf is _types.FunctionType or tf is _types.MethodType:
        g = f.__func__ if tf is _types.MethodType else f
        if g is _ENUM_META_CALL and ENGINE.symbolic and _real_len(a) == 1 and not k \
                and issubclass(f.__self__, _enum.Flag) and is_proxy(payload(a[0])):
            return _flag_call(f.__self__, a[0])
        code = g.__code__
        if code.co_filename.startswith("<compiled") or (g.__module__ or "").startswith("dissect.cstruct"):
            _note(g)
        return f(*a, **k)
    if f is _real_compile and a and _real_type(a[0]) is str:
        tree = instr.transform_source(a[0], a[1] if _real_len(a) > 1 else "<gen>")
        return _real_compile(tree, *a[1:], **k)
    if not ENGINE.symbolic:
        return f(*a, **k)
    if f is _BytesIO:
        ENGINE.models_used.add("io.BytesIO -> SymStream")
        st = SymStream(a[0]) if a else SymStream()
        st.exact = True
        return st
    if f is type and _real_len(a) == 1 and not k and _real_type(a[0]) is SymStream:
        # type(stream): exactly io.BytesIO for a stream the code built itself, a subclass of it for the harness's own stream
        # (whose concrete counterpart is LoggedBytesIO)
        return _io.BytesIO if a[0].exact else _BytesIOSubclass
    if f is bytearray and not a:
        return SByteArray()
    if f is bytearray and _real_len(a) == 1 and not k and (_real_type(a[0]) is int or _real_type(payload(a[0])) is SInt):
        n = a[0] if _real_type(a[0]) is int else concretize(payload(a[0]))   # a symbolic length: one path per feasible value
        if 0 <= n <= 4096:
            return SByteArray([0] * n)  # a buffer that item assignment / readinto() may fill with symbolic bytes
    if f is builtins.len and _real_len(a) == 1:
        lm = getattr(_real_type(a[0]), "__len__", None)
        if _real_type(lm) is _types.FunctionType and _real_type(a[0]) not in PROXY_TYPES:
            return lm(a[0])  # Python-level __len__ (MetaType, Structure): its result may be symbolic
    if f is builtins.bytes and _real_len(a) == 1 and not k:
        bm = getattr(_real_type(a[0]), "__bytes__", None)
        if _real_type(bm) is _types.FunctionType and _real_type(a[0]) not in PROXY_TYPES:
            return bm(a[0])  # Python-level __bytes__ (Structure, UnionProxy): its result may be symbolic
    symargs = False
    for x in a:
        if is_sym(x):
            symargs = True
            break
    if not symargs and k:
        for x in k.values():
            if is_sym(x):
                symargs = True
                break
    slf = getattr(f, "__self__", None)
    if not symargs:
        if slf is None or _real_type(slf) not in PROXY_TYPES:
            return f(*a, **k)
    # ---- symbolic arguments present
    if f in _NATIVE_OK:
        return f(*a, **k)
    if f is builtins.len:
        return _real_len(a[0])
    if f is builtins.hash:
        return vhash(a[0])
    if f is builtins.max or f is builtins.min:
        if _real_len(a) == 1:
            a = tuple(a[0])
        best = a[0]
        for y in a[1:]:
            c = (y > best) if f is builtins.max else (y < best)
            if c:
                best = y
        return best
    if f is builtins.sum:
        tot = a[1] if _real_len(a) > 1 else 0
        for y in a[0]:
            tot = tot + y
        return tot
    if f is builtins.any:
        for y in a[0]:
            if y:
                return True
        return False
    if f is builtins.all:
        for y in a[0]:
            if not y:
                return False
        return True
    if f is builtins.abs:
        return abs(a[0])
    if f is builtins.ord:
        x = a[0]
        if _real_type(x) is SInst:
            x = x._payload
        if _real_type(x) is SStr:
            if _real_len(x) != 1:
                raise TypeError("ord() expected a character")
            u = x.items[0]
            return u if _real_type(u) is int else SInt(z3.ZeroExt(W - 16, u), 0, 0xFFFF)
        if _real_len(x) != 1:
            raise TypeError("ord() expected a character")
        return x[0]
    if f is builtins.chr:
        t, lo, hi = _iv(a[0])
        if lo < 0 or hi > 0xFFFF:
            if not ENGINE.decide(z3.And(t >= 0, t <= 0x10FFFF)):
                raise ValueError("chr() arg not in range(0x110000)")
            ENGINE.assume(t <= 0xFFFF, "chr() restricted to BMP")
        return SStr([z3.simplify(z3.Extract(15, 0, t))])
    if f is builtins.int:
        if _real_len(a) == 1 and not k:
            x = payload(a[0])
            if _real_type(x) is SInt:
                return x
            if _real_type(x) is SBool:
                return Ite(x, 1, 0)
            if _real_type(x) is SFloat:
                raise Inconclusive("int(float) on symbolic float")
        raise Inconclusive("int() of symbolic non-int")
    if f is builtins.bool:
        return bool(a[0])
    if f is builtins.range:
        return range(*[concretize(x) if _real_type(x) in (SInt, SInst) else x for x in a])
    if f is builtins.bytes:
        if _real_len(a) == 1:
            x = a[0]
            if _real_type(x) in (SBytes, SByteArray, list, tuple) or (_real_type(x) is SInst and _real_type(x._payload) is SBytes):
                return SBytes(tobytes_items(x))
            if _real_type(x) in (SInt,) or (_real_type(x) is SInst and _real_type(x._payload) is SInt):
                return bytes(concretize(x))
            bm = getattr(_real_type(x), "__bytes__", None)
            if bm is not None:
                return bm(x)
        raise Inconclusive("bytes() of symbolic value")
    if f is builtins.bytearray:
        return SByteArray(tobytes_items(a[0]))
    if f is builtins.memoryview:
        return SBytes(tobytes_items(a[0]), memoryview)
    if f is builtins.str:
        if _real_len(a) == 1:
            x = payload(a[0])
            if _real_type(x) is SStr:
                return x
            return str(a[0])
        raise Inconclusive("str() of symbolic value")
    if f is builtins.hex or f is builtins.bin or f is builtins.oct:
        return f(concretize(a[0]))
    if f is builtins.divmod:
        return (a[0] // a[1], a[0] % a[1])
    if f is builtins.pow:
        return a[0] ** a[1]
    if f is builtins.float:
        raise Inconclusive("float() of symbolic value")
    name = getattr(f, "__name__", None)
    # unbound int slot wrappers: int.__add__(self, other)
    if tf is _types.WrapperDescriptorType or tf is _types.MethodDescriptorType:
        oc = getattr(f, "__objclass__", None)
        if oc is int and name in SInt.__dict__:
            p = payload(a[0])
            if _real_type(p) is SInt:
                return getattr(SInt, name)(p, *[payload(y) for y in a[1:]], **k)
            # concrete self, symbolic other: use the reflected operator
            r = f(p, *a[1:], **k)
            if r is NotImplemented:
                other = payload(a[1])
                rname = "__r" + name[2:] if not name.startswith("__r") else "__" + name[3:]
                if name in ("__eq__", "__ne__"):
                    rname = name
                elif name in ("__lt__", "__gt__", "__le__", "__ge__"):
                    rname = {"__lt__": "__gt__", "__gt__": "__lt__", "__le__": "__ge__", "__ge__": "__le__"}[name]
                return getattr(SInt, rname)(other, p)
            return r
        if oc is int and name == "to_bytes":
            return a[0].to_bytes(*a[1:], **k)
        if oc in (bytes, bytearray) and name == "join":
            return join_model(a[0], a[1])
        if oc is bytes and name == "decode":
            return decode_model(a[0], *a[1:2] or ["utf-8"])
        if oc is str and name == "encode":
            return encode_model(a[0], *a[1:2] or ["utf-8"])
        if oc is type and name == "__call__":
            return _type_call(f, a, k)
        if oc is object or oc is type or oc in _CONTAINER_TYPES:
            return f(*a, **k)
    # C-level constructors of int/bytes subclasses
    if name == "from_bytes" and _real_isinstance(slf, type) and issubclass(slf, int):
        order = a[1] if _real_len(a) > 1 else k.get("byteorder", "big")
        v = from_bytes(a[0], order, k.get("signed", False))
        if slf is int:
            return v
        return SInst(slf, v if _real_type(v) is SInt else _const_sint(v))
    if f is int.__new__ or f is bytes.__new__ or f is str.__new__ or f is float.__new__:
        ENGINE.models_used.add("int/bytes/str/float.__new__(cls, v) -> SInst")
        cls = a[0]
        val = payload(a[1]) if _real_len(a) > 1 else None
        if val is None or not is_proxy(val):
            return f(*a, **k)
        if f is int.__new__ and _real_type(val) is SBool:
            val = Ite(val, 1, 0)
        if cls in (int, bytes, str, float):
            return val
        return SInst(cls, val)
    if _real_isinstance(slf, _struct_mod.Struct):
        if name == "unpack":
            return model_unpack(slf, *a)
        if name == "unpack_from":
            off = a[1] if _real_len(a) > 1 else k.get("offset", 0)
            return model_unpack(slf, SBytes(tobytes_items(a[0])[off:off + slf.size]))
        if name == "pack":
            return model_pack(slf, *a)
        if name == "iter_unpack":
            items = tobytes_items(a[0])
            if slf.size == 0 or _real_len(items) % slf.size:
                raise _struct_mod.error("iterative unpacking requires a buffer of a multiple of %d bytes" % slf.size)
            return iter([model_unpack(slf, SBytes(items[i:i + slf.size])) for i in range(0, _real_len(items), slf.size)])
    if _real_isinstance(slf, (bytes, bytearray)) and name == "join":
        return join_model(slf, a[0])
    if _real_type(slf) is str and name == "join":
        return join_str_model(slf, a[0])
    if _real_type(slf) is dict and name == "get" and a and not k and is_proxy(payload(a[0])) and is_intlike(payload(a[0])):
        ENGINE.models_used.add("dict.get(symbolic int): one branch per integer key")
        for y, v in slf.items():
            if _real_isinstance(y, int) and a[0] == y:
                return v
        return a[1] if _real_len(a) > 1 else None
    if _real_isinstance(slf, _CONTAINER_TYPES) or _real_type(slf) in PROXY_TYPES or _real_isinstance(slf, SymStream):
        return f(*a, **k)
    if tf is type or _real_isinstance(f, type):
        return _class_call(f, a, k)
    if hasattr(f, "func") or tf in _PY_CALLABLE or hasattr(_real_type(f), "__call__") and not (
            tf is _types.BuiltinFunctionType or tf is _types.BuiltinMethodType or tf is _types.WrapperDescriptorType
            or tf is _types.MethodWrapperType or tf is _types.MethodDescriptorType):
        return f(*a, **k)  # functools.partial, callable instances, descriptors: Python-level
    if tf is _types.MethodWrapperType and name in ("__setattr__", "__getattribute__", "__delattr__", "__init__", "__init_subclass__"):
        return f(*a, **k)  # object-protocol slots: reference transparent
    if tf is _types.MethodWrapperType or tf is _types.BuiltinMethodType:
        if _real_isinstance(slf, (_CONTAINER_TYPES, _types.ModuleType)) is False and slf is not None:
            if _real_isinstance(slf, (str, bytes, int)) and name in ("__eq__", "__ne__"):
                return f(*a, **k)
    raise Inconclusive(f"unmodelled call {getattr(f, '__qualname__', f)!r} with symbolic arguments")


def _const_sint(v):
    return SInt(z3.BitVecVal(v, W), v, v)


def _flag_call(cls, val):
    """enum.IntFlag(value) with KEEP boundary: a declared member when the value equals one, else a pseudo-member."""
    ENGINE.models_used.add("IntFlag.__call__ (declared member or KEEP pseudo-member; negative values folded as enum.Flag._missing_ does)")
    val = payload(val)
    if _real_type(val) is SInt and val.lo < 0 and ENGINE.decide(val.t < 0):
        # enum.Flag._missing_ (CPython 3.12, boundary KEEP) maps negative values to non-negative ones
        all_bits, flag_mask = cls._all_bits_, cls._flag_mask_
        in_range = And(val >= ~all_bits, (val & (all_bits ^ flag_mask)) == 0)
        if decide_bool(in_range):
            val = all_bits + 1 + val
        else:
            p2 = _binop("lshift", 1, val.bit_length())
            val = Ite(p2 > all_bits + 1, p2, all_bits + 1) + val
    for m in cls.__members__.values():
        if val == m._value_:
            return m
    obj = SInst(cls, val)
    obj._value_ = val
    obj._name_ = None
    return obj


def _type_call(f, a, k):
    cls = a[0]
    if issubclass(cls, _enum.Flag) and _real_len(a) == 2 and is_proxy(payload(a[1])):
        return _flag_call(cls, a[1])
    if issubclass(cls, _enum.Enum):
        return f(*a, **k)
    if issubclass(cls, (int, bytes, str, float)):
        kn, fn = _find_in_mro(cls, "__new__")
        if kn in _BUILTIN_BASES and _real_len(a) == 2 and not k:
            val = payload(a[1])
            if is_proxy(val):
                ENGINE.models_used.add("type.__call__(cls, v) for int/bytes/str subclass -> SInst")
                if issubclass(cls, int) and _real_type(val) is SBool:
                    val = Ite(val, 1, 0)
                if issubclass(cls, bytes) and _real_type(val) in (SBytes, SByteArray):
                    val = SBytes(val.items, bytes)
                return SInst(cls, val)
    return f(*a, **k)


def _class_call(cls, a, k):
    meta = _real_type(cls)
    kc, fn = _find_in_mro(meta, "__call__")
    if kc is not type and isinstance(fn, _types.FunctionType):
        return cls(*a, **k)  # Python-level metaclass __call__ (instrumented when it is the repository's)
    if issubclass(cls, _enum.Flag) and _real_len(a) == 1 and is_proxy(payload(a[0])):
        return _flag_call(cls, a[0])
    return _type_call(type.__call__, (cls, *a), k)


def contains(x, container):
    """`x in container` (rewritten call site)."""
    if not ENGINE.symbolic:
        return x in container
    tx = _real_type(x)
    if tx not in PROXY_TYPES:
        if _real_type(container) in PROXY_TYPES:
            return container.__contains__(x)
        return x in container
    px = payload(x)
    if _real_type(px) is SStr and _real_isinstance(container, str):
        if _real_len(px) != 1:
            raise Inconclusive("substring test on symbolic str")
        u = b16(px.items[0])
        return bool(mkbool(z3.Or(*[u == ord(c) for c in container if ord(c) < 0x10000])))
    if _real_isinstance(container, (list, tuple)):
        for y in container:
            if y is x or x == y:
                return True
        return False
    if _real_isinstance(container, (dict, set, frozenset)):
        if is_intlike(px):
            for y in container:
                if _real_isinstance(y, int) and x == y:
                    return True
            return False
        return False
    raise Inconclusive(f"`in` with symbolic left operand on {type(container).__name__}")


_CONV = {-1: lambda v: v, 115: str, 114: repr, 97: ascii}


def _hexdigit(n):
    """16-bit code unit of the lower-case hex digit of a 4-bit int-like."""
    t, lo, hi = _iv(n)
    return z3.simplify(z3.Extract(15, 0, z3.If(t < 10, t + 48, t + 87)))


def format_model(v, spec):
    """format(v, spec) for a proxy value -> SStr (supported: [0]Nx on bounded non-negative ints, [N]s on strings)."""
    ENGINE.models_used.add("format()/f-string on symbolic value")
    p = payload(v)
    if _real_type(p) is SStr:
        m = _re.fullmatch(r"(\d*)s?", spec)
        if not m:
            raise Inconclusive(f"format spec {spec!r} on symbolic str")
        width = int(m.group(1) or 0)
        return SStr(p.items + [32] * max(0, width - _real_len(p.items)))
    if _real_type(p) is SInt:
        m = _re.fullmatch(r"0(\d+)x", spec)
        if m and p.lo >= 0 and p.hi >= (1 << (4 * int(m.group(1)))):
            # the interval does not see how the value was derived: ask the solver for the bound
            if ENGINE.check(z3.UGE(p.t, z3.BitVecVal(1 << (4 * int(m.group(1))), W))) == z3.unsat:
                p = SInt(p.t, p.lo, (1 << (4 * int(m.group(1)))) - 1)
        if m and p.lo >= 0 and p.hi < (1 << (4 * int(m.group(1)))):
            n = int(m.group(1))
            return SStr([_hexdigit((p >> (4 * (n - 1 - i))) & 15) for i in range(n)])
        return SStr([ord(c) for c in format(concretize(p), spec)])
    raise Inconclusive(f"format of symbolic {type(p).__name__}")


def fstring(*parts):
    """f-string (rewritten JoinedStr): native unless a part is symbolic."""
    out = []
    sym = False
    for part in parts:
        if _real_type(part) is tuple:
            v, conv, spec = part
            if ENGINE.symbolic and (_real_type(v) in PROXY_TYPES or _real_type(spec) in PROXY_TYPES):
                if conv != -1:
                    raise Inconclusive("!r/!s/!a conversion of a symbolic value")
                out.append(format_model(v, spec))
                sym = True
            else:
                out.append(format(_CONV[conv](v), spec))
        else:
            out.append(part)
    if not sym:
        return "".join(out)
    res = SStr([])
    for o in out:
        res = res + o
    if all(_real_type(u) is int for u in res.items):
        return "".join(chr(u) for u in res.items)  # nothing symbolic left (e.g. a concretised count)
    return res


def join_str_model(sep, parts):
    ENGINE.models_used.add("str.join")
    parts = list(parts)
    if not any(_real_type(payload(x)) is SStr for x in parts) and _real_type(sep) is not SStr:
        return sep.join(parts)
    res = SStr([])
    for i, part in enumerate(parts):
        if i:
            res = res + sep
        res = res + part
    return res


PROXY_TYPES = (SInt, SBool, SBytes, SByteArray, SStr, SFloat, SInst)
_installed = [False]


def install():
    if _installed[0]:
        return
    _installed[0] = True
    instr.install(dispatch, contains, fstring)
    builtins.hash = vhash
