"""Solver-based checking of dissect.cstruct: the real source executed over z3 terms."""
