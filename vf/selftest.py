"""Validation of the machinery itself (run by setup_cmd and by every thorough run):
 (a) the repository's suite passes with dissect.cstruct imported through the call-site rewrite;
 (b) every proxy operator / C-callee model agrees with the real CPython function on boundary values,
     exceptions included, when its arguments are *symbolic terms constrained to constants*."""
from __future__ import annotations

import itertools
import json
import os
import struct
import subprocess
import sys
import time

ROOT = os.path.dirname(os.path.dirname(os.path.abspath(__file__)))
REPO = os.environ.get("VERIF_REPO", "/repo")


def suite_under_hook():
    base = json.load(open("/root/.vp/BASELINE.json")) if os.path.exists("/root/.vp/BASELINE.json") else None
    p = subprocess.run([sys.executable, "-m", "pytest", "-q", "-p", "no:cacheprovider", "-p", "vf.pytest_hook_plugin", "-x", "tests"],
                       cwd=REPO, capture_output=True, text=True, env={**os.environ, "PYTHONPATH": ROOT}, timeout=900)
    tail = p.stdout.strip().splitlines()[-1] if p.stdout.strip() else p.stderr[-300:]
    ok = p.returncode == 0 and " passed" in tail and "failed" not in tail
    n = int(tail.split(" passed")[0].split()[-1]) if ok else 0
    if ok and base and REPO == "/repo" and n < base.get("n_stable", 0):
        ok = False
    calls = [l for l in p.stdout.splitlines() if l.startswith("DISPATCHED CALLS")]
    return ok, f"{tail} | {calls[0] if calls else ''}"


def model_differential():
    from vf import rt
    import z3
    E = rt.ENGINE
    bad, n = [], 0
    vals = [0, 1, -1, 2, 7, -8, 127, 128, 255, 256, -128, -129, 32767, 32768, -32768, 65535, 65536, 2**31 - 1, 2**31, -2**31,
            2**32 - 1, 2**32, 2**63 - 1, 2**63, -2**63, 2**64 - 1, 2**64, 2**127, -2**127, 2**128 - 1]
    small = [0, 1, 2, 7, 8, 31, 63, 64, -1]

    def sym(name, c):
        t = z3.BitVec(name, rt.W)
        E.add(t == c)
        return rt.SInt(t, -(2 ** 130), 2 ** 130)

    def conc(v):
        m = E.model()
        from vf.core import canon
        return canon(v, m)

    def run(fn, *cs):
        E.trail = []
        E.begin_path()
        E.symbolic = True
        try:
            args = [sym(f"a{i}", c) if isinstance(c, int) and not isinstance(c, bool) else c for i, c in enumerate(cs)]
            try:
                return ("ok", conc(fn(*args)))
            except rt.Inconclusive as e:
                return ("inconclusive", str(e))
            except Exception as e:  # noqa: BLE001
                return ("exc", type(e).__name__)
        finally:
            E.symbolic = False

    def real(fn, *cs):
        try:
            r = fn(*cs)
            from vf.core import canon
            return ("ok", canon(r))
        except Exception as e:  # noqa: BLE001
            return ("exc", type(e).__name__)

    import operator as op
    binops = [op.add, op.sub, op.mul, op.floordiv, op.mod, op.and_, op.or_, op.xor, op.eq, op.ne, op.lt, op.le, op.gt, op.ge]
    for f in binops:
        for a, b in itertools.product(vals[:22], vals[:14]):
            n += 1
            x, y = run(f, a, b), real(f, a, b)
            if x != y and x[0] != "inconclusive":
                bad.append((f.__name__, a, b, x, y))
    for f in (op.lshift, op.rshift):
        for a, b in itertools.product(vals[:22], small):
            n += 1
            x, y = run(f, a, b), real(f, a, b)
            if x != y and x[0] != "inconclusive":
                bad.append((f.__name__, a, b, x, y))
    for f in (op.neg, op.invert, abs, lambda v: v.bit_length(), bool):
        for a in vals:
            n += 1
            x, y = run(f, a), real(f, a)
            if x != y:
                bad.append((getattr(f, "__name__", "bit_length"), a, x, y))
    # to_bytes / from_bytes
    for size, order, signed in itertools.product((1, 2, 3, 4, 6, 8, 16), ("little", "big"), (False, True)):
        for a in vals:
            n += 1
            x = run(lambda v: v.to_bytes(size, order, signed=signed), a)
            y = real(lambda v: v.to_bytes(size, order, signed=signed), a)
            if x != y:
                bad.append(("to_bytes", size, order, signed, a, x, y))
        for pat in (b"\x00", b"\xff", b"\x80", b"\x7f", b"\x01", b"\xa5"):
            data = (pat * size)[:size - 1] + b"\x80"
            for d in (data, data[::-1], bytes(range(1, size + 1))):
                n += 1
                E.trail = []; E.begin_path(); E.symbolic = True
                try:
                    sb = E.sym_bytes("d", size)
                    for t, c in zip(sb.items, d):
                        E.add(t == c)
                    r = rt.from_bytes(sb, order, signed)
                    x = conc(r)
                finally:
                    E.symbolic = False
                y = int.from_bytes(d, order, signed=signed)
                if x != y:
                    bad.append(("from_bytes", size, order, signed, d, x, y))
    # struct codes, both byte orders
    for endian in "<>!":
        for code in "bBhHiIlLqQ":
            st = struct.Struct(endian + code)
            for a in vals:
                n += 1
                x = run(lambda v: rt.model_pack(st, v), a)
                y = real(lambda v: st.pack(v), a)
                if x[0] == "exc" and y[0] == "exc":
                    x = y = ("exc", "error")
                if x != y:
                    bad.append(("pack", endian + code, a, x, y))
            for d in (b"\x00" * st.size, b"\xff" * st.size, b"\x80" + b"\x00" * (st.size - 1), bytes(range(1, st.size + 1))):
                n += 1
                E.trail = []; E.begin_path(); E.symbolic = True
                try:
                    sb = E.sym_bytes("d", st.size)
                    for t, c in zip(sb.items, d):
                        E.add(t == c)
                    x = conc(rt.model_unpack(st, sb)[0])
                finally:
                    E.symbolic = False
                if x != st.unpack(d)[0]:
                    bad.append(("unpack", endian + code, d, x))
        st = struct.Struct(endian + "B2xH3I")
        d = bytes(range(1, st.size + 1))
        n += 1
        E.trail = []; E.begin_path(); E.symbolic = True
        try:
            sb = E.sym_bytes("d", st.size)
            for t, c in zip(sb.items, d):
                E.add(t == c)
            x = [conc(v) for v in rt.model_unpack(st, sb)]
            r = conc(rt.model_pack(st, *rt.model_unpack(st, sb)))
        finally:
            E.symbolic = False
        if x != list(st.unpack(d)) or r != st.pack(*st.unpack(d)):
            bad.append(("unpack-multi", endian, x, r))
        # floats: bit identity
        for code in "efd":
            st = struct.Struct(endian + code)
            for d in (struct.pack(endian + code, 1.5), struct.pack(endian + code, -0.0), struct.pack(endian + code, 65504.0)):
                n += 1
                E.trail = []; E.begin_path(); E.symbolic = True
                try:
                    sb = E.sym_bytes("d", st.size)
                    for t, c in zip(sb.items, d):
                        E.add(t == c)
                    x = conc(rt.model_pack(st, rt.model_unpack(st, sb)[0]))
                finally:
                    E.symbolic = False
                if x != st.pack(st.unpack(d)[0]):
                    bad.append(("float", endian + code, d, x))
    # utf-16 / latin-1
    for enc in ("utf-16-le", "utf-16-be"):
        for text in ("A", "€\x00z", "퟿"):
            d = text.encode(enc)
            n += 1
            E.trail = []; E.begin_path(); E.symbolic = True
            try:
                sb = E.sym_bytes("d", len(d))
                for t, c in zip(sb.items, d):
                    E.add(t == c)
                s = rt.decode_model(sb, enc)
                x, r = conc(s), conc(rt.encode_model(s, enc))
            finally:
                E.symbolic = False
            if x != text or r != d:
                bad.append(("utf16", enc, text, x, r))
    # fast path: non-negative dividend, constant power-of-two divisor
    for a in [v for v in vals if v >= 0]:
        for b in (1, 2, 8, 256, 1 << 64):
            for f in (op.floordiv, op.mod):
                n += 1
                E.trail = []; E.begin_path(); E.symbolic = True
                try:
                    x = E.sym_int("x", 0, 1 << 130)
                    E.add(x.t == a)
                    got = conc(f(x, b))
                finally:
                    E.symbolic = False
                if got != f(a, b):
                    bad.append(("pow2 " + f.__name__, a, b, got))
    for text in ("A", "\xe9z", "\u20ac\x7f\x80", "\u07ff\u0800"):
        n += 1
        E.trail = []; E.begin_path(); E.symbolic = True
        try:
            d = text.encode("utf-16-le")
            sb = E.sym_bytes("d", len(d))
            for t, c in zip(sb.items, d):
                E.add(t == c)
            x = conc(rt.encode_model(rt.decode_model(sb, "utf-16-le"), "utf-8"))
        finally:
            E.symbolic = False
        if x != text.encode("utf-8"):
            bad.append(("utf8", text, x))
    return bad, n


def main():
    t0 = time.time()
    ok, msg = suite_under_hook()
    print(f"[selftest] repository suite under the call-site rewrite: {'ok' if ok else 'FAILED'} ({msg})")
    bad, n = model_differential()
    print(f"[selftest] model differential on constants: {n} comparisons, {len(bad)} disagreements")
    for b in bad[:10]:
        print("   ", b)
    print(f"[selftest] {time.time() - t0:.1f}s")
    return 0 if ok and not bad else 3


if __name__ == "__main__":
    sys.exit(main())
