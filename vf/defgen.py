"""Program families: definitions generated from a grammar (never taken from the repository's tests)."""
from __future__ import annotations

import itertools
import random

U8 = ["int", 1, False]
I8 = ["int", 1, True]
U16 = ["int", 2, False]
I16 = ["int", 2, True]
U32 = ["int", 4, False]
I32 = ["int", 4, True]
U64 = ["int", 8, False]
I64 = ["int", 8, True]
U24 = ["int", 3, False]
I24 = ["int", 3, True]
U48 = ["int", 6, False]
I48 = ["int", 6, True]
U128 = ["int", 16, False]
I128 = ["int", 16, True]
CHAR = ["char"]
WCHAR = ["wchar"]
E16 = ["enum", "E", U16, {"A": 1, "B": 2, "C": 7}, False]
E8S = ["enum", "ES", I8, {"N": -1, "Z": 0, "P": 5}, False]
E24 = ["enum", "E24", U24, {"LO": 1, "HI": 0x800000}, False]
F8 = ["enum", "F", U8, {"X": 1, "Y": 2, "W": 8}, True]
F32 = ["enum", "F32", U32, {"P": 1, "Q": 4}, True]
INNER = ["struct", "inner", [["x", U8, None], ["y", I16, None]], False]
INNER2 = ["struct", "inner2", [["p", U32, None], ["q", U8, None]], False]
ANON = ["struct", "", [["ax", U8, None], ["ay", U16, None]], True]
UNI = ["union", "uni", [["a", U32, None], ["b", ["arr", U8, 3], None]], False]


def arr(T, c):
    return ["arr", T, c]


def expr_count(first_is_int):
    """Array count expression over an earlier field (or a constant when there is none)."""
    if first_is_int:
        return ["expr", ["bin", "&", ["id", "f0"], ["num", 3]]]
    return ["expr", ["bin", "+", ["id", "K1"], ["num", 1]]]


# (label, type, bits, flags) ; flags: "last" = only as last field, "dyn" = uses expr_count
CORE = [
    ("u8", U8, None, ""), ("i16", I16, None, ""), ("u32", U32, None, ""), ("i64", I64, None, ""),
    ("u24", U24, None, ""), ("i48", I48, None, ""), ("u128", U128, None, ""),
    ("char", CHAR, None, ""), ("wchar", WCHAR, None, ""), ("float", ["float", "f"], None, ""), ("double", ["float", "d"], None, ""),
    ("uleb", ["leb", False], None, ""), ("ileb", ["leb", True], None, ""),
    ("E", E16, None, ""), ("ES", E8S, None, ""), ("F", F8, None, ""),
    ("inner", INNER, None, ""), ("ptr", ["ptr", U16], None, ""),
    ("char[3]", arr(CHAR, 3), None, ""), ("u16[2]", arr(U16, 2), None, ""), ("i24[2]", arr(I24, 2), None, ""),
    ("E[2]", arr(E16, 2), None, ""), ("inner[2]", arr(INNER, 2), None, ""), ("wchar[2]", arr(WCHAR, 2), None, ""),
    ("u8[2][2]", arr(arr(U8, 2), 2), None, ""),
    ("u8:3", U8, 3, ""), ("u8:5", U8, 5, ""), ("u16:9", U16, 9, ""), ("i32:7", I32, 7, ""), ("E:4", E16, 4, ""),
    ("char[]", arr(CHAR, None), None, ""), ("u16[]", arr(U16, None), None, ""),
    ("u8[expr]", arr(U8, "X"), None, "dyn"), ("i16[expr]", arr(I16, "X"), None, "dyn"),
    ("u16[EOF]", arr(U16, "EOF"), None, "last"), ("char[EOF]", arr(CHAR, "EOF"), None, "last"),
]

EXTRA = [
    ("i8", I8, None, ""), ("u16", U16, None, ""), ("i32", I32, None, ""), ("u64", U64, None, ""), ("i24", I24, None, ""),
    ("u48", U48, None, ""), ("i128", I128, None, ""), ("float16", ["float", "e"], None, ""),
    ("E24", E24, None, ""), ("F32", F32, None, ""), ("inner2", INNER2, None, ""), ("anon", ANON, None, "anon"),
    ("uni", UNI, None, ""), ("void", ["void"], None, ""),
    ("pptr", ["ptr", ["ptr", U8]], None, ""), ("ptr[2]", arr(["ptr", U8], 2), None, ""), ("charptr", ["ptr", CHAR], None, ""),
    ("u32[0]", arr(U32, 0), None, ""), ("u64[1]", arr(U64, 1), None, ""), ("u48[2]", arr(U48, 2), None, ""), ("i48[2]", arr(I48, 2), None, ""),
    ("F[2]", arr(F8, 2), None, ""), ("E24[2]", arr(E24, 2), None, ""), ("F32[2]", arr(F32, 2), None, ""), ("ES[2]", arr(E8S, 2), None, ""), ("float[2]", arr(["float", "f"], 2), None, ""),
    ("inner[2][2]", arr(arr(INNER, 2), 2), None, ""), ("char[2][2]", arr(arr(CHAR, 2), 2), None, ""),
    ("uleb[2]", arr(["leb", False], 2), None, ""),
    ("u8:8", U8, 8, ""), ("u8:1", U8, 1, ""), ("u16:16", U16, 16, ""), ("u32:24", U32, 24, ""), ("u32:8", U32, 8, ""),
    ("u64:33", U64, 33, ""), ("i8:4", I8, 4, ""), ("i16:12", I16, 12, ""), ("F:2", F8, 2, ""), ("ES:3", E8S, 3, ""),
    ("u24:5", U24, 5, ""), ("char:4", CHAR, 4, ""),
    ("wchar[]", arr(WCHAR, None), None, ""), ("E[]", arr(E16, None), None, ""), ("uleb[]", arr(["leb", False], None), None, ""),
    ("inner[]", arr(INNER, None), None, ""), ("i24[]", arr(I24, None), None, ""), ("u64[]", arr(U64, None), None, ""),
    ("inner[expr]", arr(INNER, "X"), None, "dyn"), ("char[expr]", arr(CHAR, "X"), None, "dyn"),
    ("wchar[expr]", arr(WCHAR, "X"), None, "dyn"), ("E[expr]", arr(E16, "X"), None, "dyn"), ("u24[expr]", arr(U24, "X"), None, "dyn"),
    ("i24[EOF]", arr(I24, "EOF"), None, "last"), ("inner[EOF]", arr(INNER, "EOF"), None, "last"), ("E[EOF]", arr(E16, "EOF"), None, "last"),
    ("wchar[EOF]", arr(WCHAR, "EOF"), None, "last"), ("u8[EOF]", arr(U8, "EOF"), None, "last"), ("inner2[EOF]", arr(INNER2, "EOF"), None, "last"),
]

FULL = CORE + EXTRA
INT_KINDS = ("int",)


def build_struct(kinds, name="test"):
    """struct from a sequence of alphabet entries; None if the sequence is not expressible."""
    fields = []
    for i, (label, T, bits, flags) in enumerate(kinds):
        if "last" in flags and i != len(kinds) - 1:
            return None
        if "dyn" in flags:
            first_int = bool(fields) and fields[0][1][0] == "int" and fields[0][2] is None
            T = ["arr", T[1], expr_count(first_int)]
        fname = None if "anon" in flags else "f%d" % i
        fields.append([fname, T, bits])
    return ["struct", name, fields, False]


def sequences(alphabet, maxlen):
    for n in range(1, maxlen + 1):
        for kinds in itertools.product(alphabet, repeat=n):
            T = build_struct(kinds)
            if T is not None:
                yield "|".join(k[0] for k in kinds), T


def configs(endians=("<", ">"), aligns=(False, True), compiled=(False, True), ptrs=("uint64",)):
    for e in endians:
        for a in aligns:
            for c in compiled:
                for p in ptrs:
                    yield {"endian": e, "align": a, "compiled": c, "pointer": p}


PTR_BYTES = {"uint8": 1, "uint16": 2, "uint32": 4, "uint64": 8}
PTR_BYTES_EXOTIC = {"uint24": 3, "uint48": 6}    # arbitrary-width pointer types (C03 only: no reference layout involved)

# Hand-written feature interactions (still generated text, not copied from the test-suite)
CURATED = [
    ("bits-roll", [["a", U16, 3], ["b", U16, 9], ["c", U16, 4], ["d", U8, None], ["e", U32, 8], ["f", U32, 24]]),
    ("bits-switch", [["a", U8, 4], ["b", U16, 4], ["c", U8, 4], ["d", U8, 4]]),
    ("bits-rollover-tail", [["a", U16, None], ["b", U8, None], ["c", U8, 4], ["d", U8, 4], ["e", U8, 4]]),
    ("bits-rollover-tail2", [["a", U32, None], ["c", U8, 4], ["d", U8, 4], ["e", U8, 1], ["f", U16, 9]]),
    ("same-name-arrays", [["a", arr(I48, 2), None], ["b", arr(U48, 2), None], ["c", arr(I48, 1), None]]),
    ("same-tag-inline-a", [["h", U8, None], ["e", arr(["struct", "entry", [["a", U8, None]], "tag"], 3), None],
                           ["f", arr(["struct", "entry", [["x", U32, None], ["y", U16, None]], "tag"], 3), None], ["t", U8, None]]),
    ("bits-enum-then-block", [["a", E16, 4], ["b", E16, 12], ["c", U32, None], ["d", F8, 3], ["e", F8, 5], ["f", U16, None]]),
    ("empty-array-in-bytes-block", [["a", arr(U32, 0), None], ["b", arr(CHAR, 2), None], ["c", I48, None]]),
    ("empty-arrays", [["a", arr(U16, 0), None], ["c", CHAR, None], ["b", arr(U32, 0), None], ["d", arr(U16, 2), None], ["e", arr(U8, 0), None]]),
    ("big-count", [["n", U8, None], ["d", arr(U16, ["expr", ["bin", "*", ["bin", "&", ["id", "n"], ["num", 1]], ["num", 300]]]), None], ["t", U8, None]]),
    ("big-count-even", [["n", U16, None], ["d", arr(U16, ["expr", ["bin", "*", ["bin", "&", ["id", "n"], ["num", 1]], ["num", 300]]]), None]]),
    ("big-count-int", [["n", U8, None], ["d", arr(I24, ["expr", ["bin", "*", ["bin", "&", ["id", "n"], ["num", 1]], ["num", 300]]]), None]]),
    ("bits-switch-then-block", [["a", U16, 4], ["b", U8, 4], ["c", U8, 4], ["d", U32, None]]),
    ("bits-exhaust-then-block", [["a", U8, 4], ["b", U8, 4], ["c", U8, 4], ["d", U16, None], ["e", U8, 8], ["f", U8, 1], ["g", U64, None]]),
    ("bits-full-then-same", [["a", U8, 8], ["b", U8, 1], ["c", U32, None]]),
    ("bits-enum-mixed", [["a", E16, 4], ["b", E16, 12], ["c", F8, 2], ["d", F8, 6]]),
    ("bits-then-struct", [["a", U16, 5], ["s", INNER, None], ["b", U16, 5]]),
    ("bits-signed", [["a", I8, 4], ["b", I8, 4], ["c", I16, 16]]),
    ("bits-before-dyn", [["n", U8, None], ["d", arr(U8, ["expr", ["bin", "&", ["id", "n"], ["num", 1]]]), None], ["a", U16, 4], ["b", U16, 12]]),
    ("align-mix", [["a", U8, None], ["b", U32, None], ["c", I24, None], ["d", arr(CHAR, 3), None], ["e", INNER, None], ["f", arr(U16, 2), None], ["g", U64, None]]),
    ("align-nested-arr", [["a", U8, None], ["s", arr(INNER2, 2), None], ["b", U8, None]]),
    ("dyn-then-aligned", [["n", U8, None], ["d", arr(CHAR, ["expr", ["bin", "&", ["id", "n"], ["num", 3]]]), None], ["x", U32, None], ["y", U16, None]]),
    ("dyn-then-block", [["n", U8, None], ["d", arr(CHAR, ["expr", ["bin", "&", ["id", "n"], ["num", 3]]]), None], ["a", U8, None], ["b", U32, None],
                        ["c", U8, None], ["e", U64, None]]),
    ("dyn-then-block-bits", [["n", U8, None], ["d", arr(U8, ["expr", ["bin", "&", ["id", "n"], ["num", 3]]]), None], ["x", U16, 4], ["y", U16, 12],
                             ["a", U8, None], ["b", U32, None]]),
    ("str-then-block", [["s", arr(CHAR, None), None], ["a", U8, None], ["b", I24, None], ["c", U16, None]]),
    ("nullterm-mid", [["s", arr(CHAR, None), None], ["w", arr(U16, None), None], ["t", U8, None]]),
    ("expr-arith", [["n", U8, None], ["m", U8, None], ["d", arr(U16, ["expr", ["bin", "+", ["bin", "&", ["id", "n"], ["num", 1]], ["bin", "&", ["id", "m"], ["num", 1]]]]), None], ["t", U8, None]]),
    ("expr-neg", [["n", I8, None], ["d", arr(U8, ["expr", ["bin", "-", ["bin", ">>", ["id", "n"], ["num", 6]], ["num", 0]]]), None], ["t", U8, None]]),
    ("ptr-mid", [["a", U8, None], ["p", ["ptr", INNER], None], ["t", U8, None]]),
    ("leb-mix", [["a", ["leb", False], None], ["b", ["leb", True], None], ["c", U8, None]]),
    ("anon-struct", [["h", U8, None], [None, ANON, None], ["t", U32, None]]),
    ("union-member", [["h", U8, None], ["u", UNI, None], ["t", U16, None]]),
    ("enum-arrays", [["e", E16, None], ["ea", arr(E16, 2), None], ["f", F8, None], ["t", U8, None]]),
    ("flag-array", [["fa", arr(F8, 2), None], ["t", U8, None]]),
    ("wide-ints", [["a", U128, None], ["b", I48, None], ["c", U24, None], ["d", I128, None]]),
    ("floats", [["a", ["float", "e"], None], ["b", ["float", "f"], None], ["c", ["float", "d"], None], ["d", arr(["float", "f"], 2), None]]),
    ("wchars", [["a", WCHAR, None], ["b", arr(WCHAR, 2), None], ["c", arr(WCHAR, None), None], ["t", U8, None]]),
    ("multi-dim", [["a", arr(arr(U16, 3), 2), None], ["b", arr(arr(CHAR, 2), 2), None], ["t", U8, None]]),
    ("void-mid", [["a", U8, None], ["v", ["void"], None], ["b", U16, None]]),
    ("char-int-packed-run", [["a", U8, None], ["b", CHAR, None], ["c", U16, None], ["d", I24, None], ["e", WCHAR, None], ["f", U32, None]]),
    ("u8-char", [["a", U8, None], ["b", CHAR, None]]),
    ("bits-then-int24-aligned", [["a", U8, 3], ["b", U24, None]]),
    ("nested-deep", [["a", U8, None], ["o", ["struct", "outer", [["i", INNER, None], ["z", arr(INNER2, 1), None]], False], None], ["t", U16, None]]),
    ("eof-tail", [["a", U8, None], ["d", arr(U16, "EOF"), None]]),
    ("eof-struct-tail", [["a", U8, None], ["d", arr(INNER, "EOF"), None]]),
    ("struct-nullterm", [["s", arr(INNER, None), None], ["t", U8, None]]),
]


def curated():
    for label, fields in CURATED:
        yield label, ["struct", "test", fields, False]


def random_structs(seed, n, maxfields=6, depth=2):
    rng = random.Random(seed)
    alphabet = [k for k in FULL]
    for i in range(n):
        while True:
            nf = rng.randint(3, maxfields)
            kinds = [rng.choice(alphabet) for _ in range(nf)]
            T = build_struct(kinds)
            if T is not None:
                yield "rand%d:" % i + "|".join(k[0] for k in kinds), T
                break
