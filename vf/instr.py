"""Import hook: load dissect.cstruct from the working tree of $VERIF_REPO with every call site routed
through ``__symcall__`` (and ``x in y`` through ``__symin__``).  Nothing else is rewritten: control flow,
classes, metaclasses, closures, generators and exceptions stay native CPython.  No .pyc is read or
written, so every run re-derives the encoding from the current source."""
import ast, sys, builtins, importlib.abc, importlib.machinery, importlib.util, os

REPO = os.environ.get("VERIF_REPO", "/repo")
DISPATCH = "__symcall__"
CONTAINS = "__symin__"
FSTRING = "__symfstr__"
SKIP_NAMES = {"super", "locals", "globals", "vars", "eval", "exec", "dir"}


class CallRewriter(ast.NodeTransformer):
    def visit_Call(self, node):
        self.generic_visit(node)
        if isinstance(node.func, ast.Name) and node.func.id in SKIP_NAMES:
            return node
        if any(isinstance(a, ast.Starred) for a in node.args) or any(k.arg is None for k in node.keywords):
            pass  # *args/**kw pass through unchanged positions
        new = ast.Call(func=ast.Name(id=DISPATCH, ctx=ast.Load()), args=[node.func, *node.args], keywords=node.keywords)
        return ast.copy_location(new, node)

    def visit_Compare(self, node):
        self.generic_visit(node)
        if len(node.ops) == 1 and isinstance(node.ops[0], (ast.In, ast.NotIn)):
            call = ast.Call(func=ast.Name(id=CONTAINS, ctx=ast.Load()), args=[node.left, node.comparators[0]], keywords=[])
            if isinstance(node.ops[0], ast.NotIn):
                call = ast.UnaryOp(op=ast.Not(), operand=call)
            return ast.copy_location(call, node)
        return node


    def visit_JoinedStr(self, node):
        self.generic_visit(node)
        parts = []
        for v in node.values:
            if isinstance(v, ast.Constant):
                parts.append(v)
            else:  # FormattedValue
                spec = v.format_spec if v.format_spec is not None else ast.Constant(value="")
                parts.append(ast.Tuple(elts=[v.value, ast.Constant(value=v.conversion), spec], ctx=ast.Load()))
        call = ast.Call(func=ast.Name(id=FSTRING, ctx=ast.Load()), args=parts, keywords=[])
        return ast.copy_location(call, node)


def transform_source(source, filename):
    tree = ast.parse(source, filename)
    tree = CallRewriter().visit(tree)
    ast.fix_missing_locations(tree)
    return tree


class Loader(importlib.machinery.SourceFileLoader):
    def source_to_code(self, data, path, *, _optimize=-1):
        return compile(transform_source(data, path), path, "exec", dont_inherit=True, optimize=_optimize)

    def get_code(self, fullname):  # never use or write .pyc
        path = self.get_filename(fullname)
        return self.source_to_code(self.get_data(path), path)


class PlainLoader(importlib.machinery.SourceFileLoader):
    """The same working tree, compiled from source without any rewrite (used by replays)."""

    def get_code(self, fullname):
        path = self.get_filename(fullname)
        return compile(self.get_data(path), path, "exec", dont_inherit=True)


class Finder(importlib.abc.MetaPathFinder):
    loader = Loader

    def find_spec(self, fullname, path, target=None):
        Loader = self.loader
        if not (fullname == "dissect.cstruct" or fullname.startswith("dissect.cstruct.")):
            return None
        base = os.path.join(REPO, *fullname.split("."))
        if os.path.isdir(base):
            fn = os.path.join(base, "__init__.py")
            return importlib.util.spec_from_file_location(fullname, fn, loader=Loader(fullname, fn), submodule_search_locations=[base])
        fn = base + ".py"
        if os.path.exists(fn):
            return importlib.util.spec_from_file_location(fullname, fn, loader=Loader(fullname, fn))
        return None


def install(dispatch, contains, fstring):
    setattr(builtins, DISPATCH, dispatch)
    setattr(builtins, CONTAINS, contains)
    setattr(builtins, FSTRING, fstring)
    # `dissect` is a namespace package of /venv; make sure the cstruct sub-package comes from REPO
    for m in [m for m in sys.modules if m == "dissect.cstruct" or m.startswith("dissect.cstruct.")]:
        del sys.modules[m]
    sys.meta_path.insert(0, Finder())


class PlainFinder(Finder):
    loader = PlainLoader


def install_plain():
    """Un-instrumented import of the same working tree (used by replays)."""
    for m in [m for m in sys.modules if m == "dissect.cstruct" or m.startswith("dissect.cstruct.")]:
        del sys.modules[m]
    sys.meta_path.insert(0, PlainFinder())
