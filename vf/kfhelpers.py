"""Helper predicates usable in known_findings.json 'case' expressions (evaluated on the case description only)."""
import re


def c13_newline_inside_enum_member(case):
    """C13 trivia case: an inserted atom that contains a line break lies inside the braces of an enum/flag body."""
    if case.get("kind") != "trivia":
        return False
    from vf.harness.c13 import CORPUS
    text = "".join(u[2] for u in CORPUS[case["corpus"]])
    spans = [(m.start(1), m.end(1)) for m in re.finditer(r"(?:enum|flag)[^{;]*\{([^}]*)\}", text)]
    for off, atom in case["inserts"]:
        if ("\n" in atom or "\r" in atom) and any(a <= off <= b for a, b in spans):
            return True
    return False
