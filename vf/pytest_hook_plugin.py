"""pytest plugin: run the repository's own suite with dissect.cstruct imported through the call-site
rewrite (engine in pass-through mode).  Validates the translator on the repo's own test inputs."""
import os, sys
sys.path.insert(0, os.path.dirname(os.path.dirname(os.path.abspath(__file__))))
from vf import rt
rt.install()
NCALLS = [0]
_d = rt.dispatch
def counting(f, /, *a, **k):
    NCALLS[0] += 1
    return _d(f, *a, **k)
import builtins
builtins.__symcall__ = counting
def pytest_sessionfinish(session, exitstatus):
    print("\nDISPATCHED CALLS:", NCALLS[0])
