"""Entry point: run one property's harness over its case family on all cores, replay counterexamples
on the un-instrumented library, write evidence, print VIOLATION / KNOWN-FINDING lines."""
from __future__ import annotations

import argparse
import hashlib
import importlib
import json
import multiprocessing as mp
import os
import subprocess
import sys
import time

ROOT = os.path.dirname(os.path.dirname(os.path.abspath(__file__)))
REPO = os.environ.get("VERIF_REPO", "/repo")
EXIT_OK, EXIT_VIOLATION, EXIT_HARNESS = 0, 1, 3

HARNESS = {
    "C01": "c01", "C02": "c02", "C03": "c03", "C04": "c04", "C05": "c05", "C06": "c06", "C07": "c07", "C08": "c08",
    "C09": "c09", "C10": "c10", "C11": "c11", "C12": "c12", "C13": "c13", "C14": "c14", "C15": "c15", "C16": "c16",
    "C17": "c17", "C18": "c18", "C19": "c19",
}

_W = {}


def _init(modname, width, query_timeout_ms):
    sys.setrecursionlimit(10000)
    from vf import rt, core
    if width:
        rt.set_width(width)
    rt.install()
    rt.ENGINE.timeout_ms = query_timeout_ms
    core.SECOND["every"] = int(os.environ.get("VERIF_SECOND_EVERY", "0"))
    _W["width"] = width or 256
    _W["mod"] = importlib.import_module("vf.harness." + modname)
    _W["kf"] = core.KnownFindings(os.path.join(ROOT, "known_findings.json"))
    _W["seen_funcs"] = set()
    _W["seen_models"] = set()
    _W["seen_assume"] = set()


def _work(job):
    from vf import rt, core
    idx, case, opts = job
    mod = _W["mod"]
    make = getattr(mod, case.get("make", "make"))
    rt.set_width(case.get("width", _W["width"]))
    try:
        res = core.explore_case(mod.PROPERTY, make, case, _W["kf"], max_paths=opts["max_paths"],
                                witness_every=opts["witness_every"], time_budget=case.get("case_budget", opts["case_budget"]))
    except rt.HarnessError as e:
        res = {"case": case, "harness_error": str(e)}
    except Exception as e:  # noqa: BLE001
        import traceback
        res = {"case": case, "harness_error": "worker: " + "".join(traceback.format_exception_only(type(e), e)).strip()[:300]}
    E = rt.ENGINE
    res["idx"] = idx
    res["funcs"] = sorted(E.funcs - _W["seen_funcs"])
    _W["seen_funcs"] |= E.funcs
    res["models"] = sorted(E.models_used - _W["seen_models"])
    _W["seen_models"] |= E.models_used
    res["assume"] = sorted(E.assumptions - _W["seen_assume"])
    _W["seen_assume"] |= E.assumptions
    return res


def case_key(case):
    return hashlib.sha1(json.dumps(case, sort_keys=True, default=str).encode()).hexdigest()[:12]


def run_property(prop, tier, seed, args):
    t0 = time.time()
    if "VERIF_SECOND_EVERY" not in os.environ:
        os.environ["VERIF_SECOND_EVERY"] = "0" if tier == "quick" else "500"
    modname = HARNESS[prop]
    mod = importlib.import_module("vf.harness." + modname)
    settings = dict(getattr(mod, "SETTINGS", {}))
    settings.update(getattr(mod, "SETTINGS_" + tier.upper(), {}))
    width = settings.get("width", 0)
    opts = {
        "max_paths": settings.get("max_paths", 4096 if tier == "quick" else 65536),
        "witness_every": settings.get("witness_every", 1),
        "case_budget": settings.get("case_budget", 60.0 if tier == "quick" else 600.0),
    }
    qt = settings.get("query_timeout_ms", 20000 if tier == "quick" else 120000)
    budget = float(os.environ.get("VERIF_BUDGET_S", settings.get("budget_s", 300 if tier == "quick" else 1500)))
    import shutil
    shutil.rmtree(os.path.join(ROOT, "replays", prop), ignore_errors=True)
    cases = list(mod.cases(tier, seed))
    if args.only:
        cases = [c for c in cases if args.only in c.get("label", "")]
    if args.limit:
        cases = cases[:args.limit]
    jobs = [(i, c, opts) for i, c in enumerate(cases)]
    nproc = int(os.environ.get("VERIF_JOBS", min(16, os.cpu_count() or 1)))
    results = []
    not_run = 0
    ctx = mp.get_context("fork")
    deadline = t0 + budget
    with ctx.Pool(nproc, initializer=_init, initargs=(modname, width, qt), maxtasksperchild=settings.get("maxtasks", 400)) as pool:
        it = pool.imap_unordered(_work, jobs)
        while True:
            try:
                remaining = deadline - time.time()
                if remaining <= 0:
                    raise mp.TimeoutError
                r = it.next(timeout=remaining)
            except StopIteration:
                break
            except mp.TimeoutError:
                not_run = len(jobs) - len(results)
                pool.terminate()
                break
            results.append(r)
    return finish(prop, modname, mod, tier, seed, cases, results, not_run, t0, args, settings)


def finish(prop, modname, mod, tier, seed, cases, results, not_run, t0, args, settings):
    agg = dict(paths=0, decided_paths=0, obligations=0, discharged=0, trivial=0, queries=0, solver_s=0.0, branch_points=0,
               witness_ok=0, reached=0)
    inconclusive, errors, witness_bad, candidates, known, harness_errors = [], [], [], [], [], []
    oob, funcs, models, assume, outcomes = {}, set(), set(), set(), {}
    second = {"checked": 0, "agree": 0, "disagree": [], "inconclusive": 0}
    samples = []
    decided_cases = 0
    skipped = 0
    for r in results:
        if "harness_error" in r:
            harness_errors.append({"case": r["case"].get("label"), "error": r["harness_error"]})
            continue
        funcs.update(r["funcs"]); models.update(r["models"]); assume.update(r["assume"])
        if r.get("skipped"):
            skipped += 1
            continue
        for k in agg:
            agg[k] += r.get(k, 0)
        for k, v in r["out_of_bound"].items():
            oob[k] = oob.get(k, 0) + v
        for k, v in r["outcomes"].items():
            outcomes[k] = outcomes.get(k, 0) + v
        if "second" in r:
            for k in ("checked", "agree", "inconclusive"):
                second[k] += r["second"][k]
            second["disagree"] += r["second"]["disagree"]
        lab = r["case"].get("label")
        cfg = r["case"].get("cfg")
        if r["inconclusive"]:
            inconclusive.append({"case": lab, "cfg": cfg, "reasons": sorted(set(r["inconclusive"]))[:4]})
        elif not r["errors"] and not r["witness_bad"]:
            decided_cases += 1
        for e in r["errors"]:
            errors.append({"case": lab, "cfg": cfg, "error": e})
        for w in r["witness_bad"]:
            witness_bad.append({"case": lab, "cfg": cfg, **w})
        for v in r["violations"]:
            candidates.append({"case": r["case"], **v})
        for kf in r["known"]:
            known.append({"case": r["case"], **kf})
        if r.get("sample") and len(samples) < 6 and (len(samples) < 2 or r["idx"] % 97 == 0):
            text = r["case"].get("text")
            if text is None and r["case"].get("T") is not None:
                try:
                    from vf import refmodel
                    text = refmodel.render(r["case"]["T"])
                except Exception:  # noqa: BLE001
                    text = str(r["case"]["T"])[:300]
            samples.append({"case": lab, "cfg": cfg, "definition": text, "paths_explored": r["paths"],
                            "inputs": "symbolic (every byte / value within the stated bounds)", **r["sample"]})
    heavy = sorted(((r.get("wall_s", 0), r.get("paths", 0), r["case"].get("label"), str(r["case"].get("cfg"))) for r in results if "case" in r),
                   reverse=True)[:8]
    # ---- confirm counterexamples on the un-instrumented library
    confirmed, unreproduced = replay_batch(prop, modname, candidates)
    known_confirmed, known_unrep = replay_batch(prop, modname, known, write_files=False)
    viol_lines = []
    seen = set()
    for c in confirmed:
        key = (c["case"].get("label"), json.dumps(c["case"].get("cfg"), sort_keys=True), c["label"])
        if key in seen:
            continue
        seen.add(key)
        viol_lines.append(c)
    kf_seen = {}
    for k in known_confirmed:
        kf_seen.setdefault(k["finding"], k)
    wall = time.time() - t0
    from vf import core
    kfdb = core.KnownFindings(os.path.join(ROOT, "known_findings.json"))
    kf_desc = {e["id"]: e for e in kfdb.entries}
    vacuous = agg["reached"] == 0 and not getattr(mod, "ALLOW_NO_CHECKS", False)
    evidence = {
        "property_id": prop, "tier": tier, "seed": seed, "level": "model_checking",
        "coverage": {
            "states": agg["paths"], "transitions": max(agg["branch_points"], 0) + agg["obligations"] - agg["trivial"],
            "traces_validated_against_impl": agg["witness_ok"],
            "samples": samples or [{"note": "no case produced obligations"}],
            "programs": len({json.dumps(c.get("T") or c.get("text") or c.get("label"), sort_keys=True, default=str) for c in cases}),
            "cases": len(cases), "cases_run": len(results), "cases_not_run_budget": not_run, "cases_skipped_by_reference": skipped,
            "cases_fully_decided": decided_cases,
            "paths_decided": agg["decided_paths"], "paths_reaching_assertions": agg["reached"],
            "obligations": agg["obligations"], "discharged": agg["discharged"],
            "discharged_by_simplification": agg["trivial"], "discharged_by_solver": agg["discharged"] - agg["trivial"],
            "branch_points_decided_by_solver": agg["branch_points"],
            "inconclusive": inconclusive[:40], "inconclusive_cases": len(inconclusive),
            "out_of_bound_paths": oob, "outcome_classes": outcomes,
            "functions_encoded": sorted(funcs), "models_used": sorted(models),
            "second_solver": {"binaries": "/usr/bin/z3 4.8.12, cvc5 1.0.3 (first that answers)", "sample_every": int(os.environ.get("VERIF_SECOND_EVERY", "0")),
                              "unsat_obligations_rechecked": second["checked"], "agreed": second["agree"], "inconclusive": second["inconclusive"],
                              "disagreements": second["disagree"][:10]},
            "solver": {"engine": "z3 " + _z3v(), "queries": agg["queries"], "solver_s": round(agg["solver_s"], 2)},
            "heaviest_cases": [{"wall_s": h[0], "paths": h[1], "case": h[2], "cfg": h[3]} for h in heavy],
            "bounds": getattr(mod, "BOUNDS", {}).get(tier, getattr(mod, "BOUNDS", {}).get("all", "")),
            "known_findings_seen": sorted(kf_seen), "engine_errors": errors[:20], "witness_disagreements": witness_bad[:10],
            "counterexamples_not_reproduced": unreproduced[:10] + known_unrep[:10],
            "exhaustive": not_run == 0 and not inconclusive,
            "explanation": "symbolic execution of the real source (call-site rewrite + z3 proxies); each path's obligations "
                           "discharged by the solver for all input values within the bounds",
        },
        "assumptions": sorted(assume) + list(getattr(mod, "ASSUMPTIONS", [])),
        "wall_s": round(wall, 2), "violations": len(viol_lines),
    }
    os.makedirs(os.path.join(ROOT, "evidence"), exist_ok=True)
    with open(os.path.join(ROOT, "evidence", prop + ".json"), "w") as f:
        json.dump(evidence, f, indent=1, default=str)
    # ---- report
    print(f"[{prop}] tier={tier} cases={len(results)}/{len(cases)} paths={agg['paths']} obligations={agg['obligations']} "
          f"discharged={agg['discharged']} (solver {agg['discharged'] - agg['trivial']}) queries={agg['queries']} "
          f"solver_s={agg['solver_s']:.1f} witness_ok={agg['witness_ok']} inconclusive_cases={len(inconclusive)} "
          f"not_run={not_run} wall={wall:.1f}s")
    for i in inconclusive[:8]:
        print(f"  inconclusive: {i['case']} {i['cfg']} {i['reasons'][:2]}")
    if not_run:
        print(f"  NOTE: wall budget reached, {not_run} of {len(cases)} cases were not run (listed in evidence.coverage.cases_not_run_budget); "
              f"raise VERIF_BUDGET_S to cover them")
    for fid, k in sorted(kf_seen.items()):
        print(f"KNOWN-FINDING: property={prop} {fid}: {kf_desc.get(fid, {}).get('description', '')} "
              f"[e.g. {k['case'].get('label')} {k['label']}]")
    for c in viol_lines[:25]:
        print(f"VIOLATION property={prop} replay={c['file']}  # {c['case'].get('label')} {c['case'].get('cfg')} :: {c['label']} :: {c.get('failed')}")
    if len(viol_lines) > 25:
        print(f"  ... and {len(viol_lines) - 25} more violations")
    status = EXIT_OK
    if second["disagree"]:
        print(f"  HARNESS-ERROR second solver disagrees on {len(second['disagree'])} obligation(s): {second['disagree'][:3]}")
    if harness_errors or errors or witness_bad or unreproduced or known_unrep or vacuous or second["disagree"]:
        status = EXIT_HARNESS
        for e in errors[:10]:
            print(f"  HARNESS-ERROR uncaught exception: {e}")
        for w in witness_bad[:5]:
            print(f"  HARNESS-ERROR witness replay disagreement: {json.dumps(w, default=str)[:700]}")
        for u in (unreproduced + known_unrep)[:5]:
            print(f"  HARNESS-ERROR counterexample did not reproduce: {json.dumps(u, default=str)[:700]}")
        for h in harness_errors[:5]:
            print(f"  HARNESS-ERROR {h}")
        if vacuous:
            print("  HARNESS-ERROR vacuous run: no path reached an assertion")
    if viol_lines:
        status = EXIT_VIOLATION
    return status


def _z3v():
    import z3
    return z3.get_version_string()


def replay_batch(prop, modname, candidates, write_files=True):
    """Re-run each candidate on the plain library in a separate interpreter (no import hook)."""
    if not candidates:
        return [], []
    # bound the work: at most 3 candidates per (case, label)
    per = {}
    todo = []
    for c in candidates:
        key = (case_key(c["case"]), c["label"])
        per[key] = per.get(key, 0) + 1
        if per[key] <= 2 and len(todo) < 400:
            todo.append(c)
    payload = [{"property": prop, "harness": modname, "case": c["case"], "assignment": c["assignment"], "label": c["label"]}
               for c in todo]
    tmp = os.path.join(ROOT, "replays", f".batch_{prop}_{os.getpid()}.json")
    os.makedirs(os.path.dirname(tmp), exist_ok=True)
    with open(tmp, "w") as f:
        json.dump(payload, f)
    try:
        p = subprocess.run([sys.executable, "-m", "vf.replay", "--batch", tmp], cwd=ROOT, capture_output=True, text=True,
                           timeout=900, env={**os.environ, "PYTHONPATH": ROOT})
        out = json.loads(p.stdout.strip().splitlines()[-1]) if p.stdout.strip() else None
    except Exception as e:  # noqa: BLE001
        out = None
        p = None
    finally:
        try:
            os.unlink(tmp)
        except OSError:
            pass
    if out is None:
        return [], [{"error": "replay process failed", "stderr": (p.stderr[-600:] if p else "")}]
    confirmed, unrep = [], []
    for c, r in zip(todo, out):
        if r.get("failed"):
            c = dict(c)
            c["failed"] = r["failed"][:3]
            if write_files:
                d = os.path.join(ROOT, "replays", prop)
                os.makedirs(d, exist_ok=True)
                body = {"property": prop, "harness": modname, "case": c["case"], "assignment": c["assignment"], "label": c["label"],
                        "observed_on_replay": r}
                name = hashlib.sha1(json.dumps(body, sort_keys=True, default=str).encode()).hexdigest()[:16] + ".json"
                c["file"] = os.path.join(d, name)
                with open(c["file"], "w") as f:
                    json.dump(body, f, indent=1, default=str)
            confirmed.append(c)
        else:
            unrep.append({"case": c["case"].get("label"), "cfg": c["case"].get("cfg"), "label": c["label"],
                          "assignment": c["assignment"], "replay": r})
    return confirmed, unrep


def main(argv=None):
    ap = argparse.ArgumentParser()
    ap.add_argument("prop")
    ap.add_argument("--tier", default=os.environ.get("VERIF_TIER", "quick"))
    ap.add_argument("--only", default="")
    ap.add_argument("--limit", type=int, default=0)
    args = ap.parse_args(argv)
    seed = int(os.environ.get("VERIF_SEED", "0"))
    if args.prop == "replay":
        raise SystemExit("use: ./check replay <file>")
    sys.exit(run_property(args.prop, args.tier, seed, args))


if __name__ == "__main__":
    main()
