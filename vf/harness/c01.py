"""C01 — value round trip: parse(dumps(v)) == v, consuming len(dumps(v)); misfitting integers are rejected."""
from vf import refmodel as R
from vf import rt
from vf.harness import common as H
from vf import families

PROPERTY = "C01"
# random 4..6-member definitions with several forking members can explode: cap them so that the budget reaches the other families
SETTINGS_THOROUGH = {"case_budget": 45.0, "max_paths": 20000}
BOUNDS = {"all": "(a) values obtained by parsing: all symbolic inputs of extent+slack bytes (<= 40); (b) values constructed directly: "
                 "one unconstrained integer in [-2^130, 2^130] per fixed-width integer/enum/pointer leaf (flag objects from [0, 2^130]: "
                 "enum.Flag itself folds a negative argument before the library sees the object), LEB128 |v| < 2^34, bit-field "
                 "values that fit, non-zero elements for zero-terminated arrays (<= 2 elements), char/wchar leaves arbitrary (wchar BMP "
                 "non-surrogate); definitions as in C02; floats only through (a)"}


def make(case):
    T, cfg = case["T"], case["cfg"]
    try:
        H.layout(cfg).size_align(T)
    except R.RefReject:
        return None
    try:
        cs, cls = H.load(T, cfg)
    except Exception:  # noqa: BLE001
        return None
    n = case["nbytes"]
    eof_tail = bool(cfg["align"] and T[2] and T[2][-1][1][0] == "arr" and T[2][-1][1][2] == "EOF")

    def run(ctx):
        data = ctx.bytes("b", n)
        s = ctx.stream(data)
        try:
            v = cls.read(s)
        except Exception as e:  # noqa: BLE001
            ctx.observe("outcome", "parse:" + H.classify(e))
            return
        try:
            o = v.dumps()
        except Exception as e:  # noqa: BLE001
            ctx.observe("outcome", "dump:" + H.classify(e))
            ctx.check("a parsed value can be dumped", False, H.classify(e))
            return
        if eof_tail:
            # known-finding region: tail padding written after a to-end-of-stream array
            ref = H.ref_parser(ctx, cfg)
            try:
                ref.parse(T, data, 0)
                ctx.inputs["tail_pad"] = len(o) - (max(ref.mask) + 1 if ref.mask else 0)
            except R.RefEOF:
                ctx.inputs["tail_pad"] = 0
        s2 = ctx.stream(o)
        try:
            v2 = cls.read(s2)
        except Exception as e:  # noqa: BLE001
            ctx.observe("outcome", "reparse:" + H.classify(e))
            ctx.check("dumps(v) parses", False, H.classify(e))
            return
        ctx.observe("outcome", "value")
        ctx.observe("dumped", o)
        ctx.check("parse(dumps(v)) consumes exactly len(dumps(v))", s2.tell() == len(o), f"{H.show(s2.tell())} vs {len(o)}")
        ctx.check("parse(dumps(v)) == v field by field", R.lib_eq(T, v, v2))
        try:
            same = (v2 == v)
        except Exception as e:  # noqa: BLE001
            same = False
        ctx.check("parse(dumps(v)) == v by the library's own equality", same)
    return run


# ------------------------------------------------------------------------------------------ constructed values
BIG = 1 << 130


def constructible(T):
    """(b) covers static layouts, LEB128 and zero-terminated arrays (lengths of expression/EOF arrays are not free)."""
    k = T[0]
    if k == "arr":
        if T[2] == "EOF" or isinstance(T[2], list):
            return False
        return constructible(T[1]) and not (T[2] is None and T[1][0] in ("struct", "arr", "float", "void"))
    if k in ("struct",):
        return all(constructible(f[1]) for f in T[2])
    if k in ("float", "void", "union"):
        return False
    return True


class Builder:
    def __init__(self, ctx, cs, cfg, in_range=False):
        self.ctx, self.cs, self.cfg = ctx, cs, cfg
        self.in_range = in_range   # constrain every integer leaf to its type's range when it is created
        self.n = 0
        self.leaves = []   # (kind, T, sym, lo, hi) for range-checked integer leaves
        self.L = H.layout(cfg)

    def name(self):
        self.n += 1
        return "v%d" % self.n

    def int_leaf(self, T, lo, hi, rng=None):
        v = self.ctx.int(self.name(), -BIG if rng is None else rng[0], BIG if rng is None else rng[1])
        self.leaves.append((T, v, lo, hi))
        if self.in_range and lo is not None:
            self.ctx.constrain(R.And(v >= lo, v <= hi))   # before the value is used: assumptions are not retroactive
        return v

    def build(self, T, libtype, bits=None, nonzero=False):
        """Returns (value handed to the library, reference value for comparison)."""
        k = T[0]
        ctx = self.ctx
        if bits:
            v = ctx.int(self.name(), 0, (1 << bits) - 1)
            if T[0] == "enum":
                return libtype(v), v
            return v, v
        if k == "int":
            lo, hi = R.int_range(T[1], T[2])
            v = self.int_leaf(T, lo, hi)
            if nonzero:
                ctx.constrain(v != 0)
            return v, v
        if k == "ptr":
            lo, hi = R.int_range(self.L.ptr, False)
            v = self.int_leaf(T, lo, hi)
            return v, v
        if k == "enum":
            s, _ = self.L.size_align(T)
            lo, hi = R.int_range(s, T[2][2])
            v = self.int_leaf(T, lo, hi)
            if nonzero:
                ctx.constrain(v != 0)
            if T[4]:
                # enum.Flag folds a negative argument into a non-negative value when the object is constructed (CPython,
                # boundary KEEP) - before the library's writer sees it - so flag objects are built from non-negative integers
                ctx.constrain(v >= 0)
            return libtype(v), v
        if k == "leb":
            v = ctx.int(self.name(), -(1 << 34), (1 << 34))
            if nonzero:
                ctx.constrain(v != 0)
            self.leaves.append((T, v, None if T[1] else 0, None))
            if self.in_range and not T[1]:
                ctx.constrain(v >= 0)
            return v, v
        if k == "char":
            b = ctx.bytes(self.name(), 1)
            if nonzero:
                ctx.constrain(b[0] != 0)
            return b, b
        if k == "wchar":
            b = ctx.bytes(self.name(), 2)
            u = b[0] | (b[1] << 8)
            ctx.constrain(R.Or(u < 0xD800, u > 0xDFFF))
            if nonzero:
                ctx.constrain(u != 0)
            return self.wstr([u]), [u]
        if k == "arr":
            ET = T[1]
            cnt = T[2] if T[2] is not None else ctx.choose(self.name() + "len", 3)
            nz = T[2] is None
            if ET[0] == "char":
                b = ctx.bytes(self.name(), cnt)
                if nz:
                    for i in range(cnt):
                        ctx.constrain(b[i] != 0)
                return b, b
            if ET[0] == "wchar":
                us = []
                for i in range(cnt):
                    b = ctx.bytes(self.name(), 2)
                    u = b[0] | (b[1] << 8)
                    ctx.constrain(R.Or(u < 0xD800, u > 0xDFFF))
                    if nz:
                        ctx.constrain(u != 0)
                    us.append(u)
                return self.wstr(us), us
            et = libtype.type
            pairs = [self.build(ET, et, nonzero=nz) for _ in range(cnt)]
            return [p[0] for p in pairs], [p[1] for p in pairs]
        if k == "struct":
            kw, ref = {}, {}
            for f, (fname, FT, fb) in zip(libtype.__fields__, T[2]):
                lv, rv = self.build(FT, f.type, fb)
                kw[f._name] = lv
                ref[fname if fname is not None else FT[1]] = rv
            return libtype(**kw), ref
        raise ValueError(T)

    def wstr(self, units):
        if self.ctx.symbolic:
            return rt.SStr([rt.z3.simplify(rt.z3.Extract(15, 0, rt.bv(u))) if type(u) is not int else u for u in units])
        return "".join(chr(u) for u in units)


def make_constructed(case):
    T, cfg = case["T"], case["cfg"]
    try:
        H.layout(cfg).size_align(T)
    except R.RefReject:
        return None
    try:
        cs, cls = H.load(T, cfg)
    except Exception:  # noqa: BLE001
        return None

    def run(ctx):
        b = Builder(ctx, cs, cfg)
        v, ref = b.build(T, cls)
        in_range = R.And(*[R.And(True if lo is None else x >= lo, True if hi is None else x <= hi) for _, x, lo, hi in b.leaves])
        try:
            o = v.dumps()
        except Exception as e:  # noqa: BLE001
            ctx.observe("outcome", "rejected:" + H.classify(e))
            ctx.check("only values with a misfitting integer are rejected", R.Not(in_range), H.classify(e))
            return
        ctx.observe("dumped", o)
        ctx.check("accepted values have every integer in range (no silent truncation)", in_range)
        s2 = ctx.stream(o)
        try:
            v2 = cls.read(s2)
        except Exception as e:  # noqa: BLE001
            ctx.observe("outcome", "reparse:" + H.classify(e))
            ctx.check("dumps(v) parses", False, H.classify(e))
            return
        ctx.observe("outcome", "value")
        ctx.check("parse(dumps(v)) consumes exactly len(dumps(v))", s2.tell() == len(o), f"{H.show(s2.tell())} vs {len(o)}")
        ctx.check("parse(dumps(v)) == v (reference leaves)", R.value_eq(T, v2, ref))
    return run


def cases(tier, seed):
    for c in families.struct_cases(tier, seed):
        two = "|" in c["label"]
        # the compiled reader on 2-member definitions is C02/C03's subject; here one reader suffices for them
        if not (tier == "quick" and two and c["cfg"]["compiled"]):
            yield c
        if constructible(c["T"]) and (not two or c["cfg"]["endian"] == "<"):
            yield dict(c, make="make_constructed", label=c["label"] + "#ctor")
