"""C16 — pointers: width from configuration, dereference reads the target in place."""
from vf import refmodel as R
from vf import defgen as G
from vf.harness import common as H

PROPERTY = "C16"
BOUNDS = {"all": "pointer types uint8/16/32/64 x {<,>} x {packed,aligned} x {interpreted,compiled} x targets {uint16, int24, struct, char "
                 "(NUL-terminated string), pointer to pointer, void, enum}; structure 'uint8 a; T *p; uint8 t' (+ array of pointers) in a "
                 "symbolic stream of 14..18 bytes; the address is symbolic: every in-range address is a path, all addresses beyond the "
                 "end form one class; pointer arithmetic with a symbolic offset in [0, 2]"}

TARGETS = [("u16", G.U16), ("i24", G.I24), ("inner", G.INNER), ("char", G.CHAR), ("pp", ["ptr", G.U16]), ("void", ["void"]), ("E", G.E16)]


def reads(stream):
    return len([x for x in stream.log if x[0] == "read"])


def make(case):
    TT, cfg = case["target"], case["cfg"]
    T = ["struct", "test", [["a", G.U8, None], ["p", ["ptr", TT], None], ["t", G.U8, None]], False]
    cs, cls = H.load(T, cfg)
    n = max(case["nbytes"], H.layout(cfg).size_align(T)[0] + 4)
    w = G.PTR_BYTES[cfg["pointer"]]

    def run(ctx):
        from dissect.cstruct.exceptions import NullPointerDereference
        data = ctx.bytes("b", n)
        s = ctx.stream(data)
        try:
            v = cls.read(s)
        except Exception as e:  # noqa: BLE001
            ctx.check("structure with a pointer member parses", False, H.classify(e))
            return
        ref = H.ref_parser(ctx, cfg)
        rv, rpos = ref.parse(T, data, 0)
        ctx.check("pointer occupies the configured width; value = unsigned integer stored there", R.And(s.tell() == rpos, R.value_eq(T, v, rv)))
        p = v.p
        addr = rv["p"]
        ctx.observe("addr", addr)
        ctx.check("pointer class bound to its target type", p.__class__.type is cls.__fields__[1].type.type)
        before = s.tell()
        try:
            d = ("value", p.dereference())
        except NullPointerDereference:
            d = ("null", None)
        except Exception as e:  # noqa: BLE001
            d = ("error", H.classify(e))
        ctx.observe("outcome", d[0] + (":" + str(d[1]) if d[0] == "error" else ""))
        ctx.check("dereferencing does not move the stream", s.tell() == before)
        if d[0] == "null":
            ctx.check("only a null pointer raises the null-dereference error", addr == 0)
            return
        ctx.check("a null pointer raises the dedicated null-dereference error", addr != 0)
        # what parsing the target type at that absolute offset returns
        r2 = H.ref_parser(ctx, cfg)
        a = R.rt.concretize(addr) if d[0] == "value" and TT[0] != "void" else None
        if TT[0] == "void":
            ctx.check("void pointer dereferences to nothing without reading", d[0] == "value" and d[1] is None)
            return
        if d[0] == "error":
            # must be explained by the target not being parseable at that offset
            beyond = addr > n
            if beyond is True or (beyond is not False and R.rt.decide_bool(beyond)):
                return
            a = R.rt.concretize(addr)
            try:
                r2.parse(["arr", G.CHAR, None] if TT[0] == "char" else TT, data, a)
                ctx.check("dereference fails only where parsing the target at that offset fails", False, d[1])
            except R.RefEOF:
                pass
            return
        try:
            tv, _ = r2.parse(["arr", G.CHAR, None] if TT[0] == "char" else TT, data, a)
        except R.RefEOF:
            ctx.check("dereference returns a value only where the target can be parsed", False)
            return
        ctx.check("dereference == parse of the target type at that absolute offset",
                  R.value_eq(["arr", G.CHAR, None] if TT[0] == "char" else TT, d[1], tv))
        nreads = reads(s)
        d2 = p.dereference()
        ctx.check("repeated dereference is stable and does not read again", d2 is d[1] and reads(s) == nreads)
        if TT[0] == "ptr":
            try:
                inner = d[1].dereference()
                ia = R.rt.concretize(tv)
                iv, _ = H.ref_parser(ctx, cfg).parse(TT[1], data, ia)
                ctx.check("pointer to pointer: second level == parse at the inner address", R.value_eq(TT[1], inner, iv))
            except NullPointerDereference:
                ctx.check("inner null pointer", tv == 0)
            except R.RefEOF:
                ctx.check("inner dereference returns a value only where parseable", False)
            except Exception as e:  # noqa: BLE001
                ctx.observe("inner", H.classify(e))
        # arithmetic
        k = ctx.int("k", 0, 2)
        q = p + k
        ctx.check("pointer arithmetic yields a pointer of the same type on the same stream",
                  q.__class__ is p.__class__ and q._stream is p._stream)
        ctx.check("pointer arithmetic adds to the address", q == addr + k)
        import operator as _op
        kk = k + 1
        for name, fn in (("-", _op.sub), ("*", _op.mul), ("//", _op.floordiv), ("%", _op.mod), ("<<", _op.lshift), (">>", _op.rshift),
                         ("&", _op.and_), ("^", _op.xor), ("|", _op.or_)):
            try:
                r = fn(p, kk)
            except Exception as e:  # noqa: BLE001
                ctx.check(f"pointer {name} int works", False, H.classify(e))
                continue
            ctx.check(f"pointer {name} int: same pointer type on the same stream (and context)",
                      r.__class__ is p.__class__ and r._stream is p._stream and r._context is p._context)
            ctx.check(f"pointer {name} int: value", r == fn(addr, kk))
        if TT[0] not in ("int", "enum"):
            return
        try:
            dq = ("value", q.dereference())
        except Exception as e:  # noqa: BLE001
            dq = ("error", H.classify(e))
        if dq[0] == "value" and TT[0] in ("int", "enum"):
            qa = R.rt.concretize(addr + k)
            try:
                qv, _ = H.ref_parser(ctx, cfg).parse(TT, data, qa)
                ctx.check("dereferencing the advanced pointer reads at the advanced address", R.value_eq(TT, dq[1], qv))
            except R.RefEOF:
                ctx.check("advanced pointer returns a value only where parseable", False)
        ctx.check("stream position still unchanged", s.tell() == before)
    return run


def make_array(case):
    """Array of pointers (the compiled reader builds these by another path): every element dereferences in place."""
    TT, cfg = case["target"], case["cfg"]
    T = ["struct", "test", [["a", G.U8, None], ["p", ["arr", ["ptr", TT], 2], None], ["t", G.U8, None]], False]
    cs, cls = H.load(T, cfg)
    n = H.layout(cfg).size_align(T)[0] + 3

    def run(ctx):
        from dissect.cstruct.exceptions import NullPointerDereference
        data = ctx.bytes("b", n)
        s = ctx.stream(data)
        try:
            v = cls.read(s)
        except Exception as e:  # noqa: BLE001
            ctx.check("structure with a pointer array parses", False, H.classify(e))
            return
        ref = H.ref_parser(ctx, cfg)
        rv, rpos = ref.parse(T, data, 0)
        ctx.check("pointer array: element width and values", R.And(s.tell() == rpos, R.value_eq(T, v, rv)))
        before = s.tell()
        for i in range(2):
            p = v.p[i]
            ctx.check(f"element {i}: a pointer of the declared target type bound to the stream",
                      p.__class__.type is cls.__fields__[1].type.type.type and p._stream is s)
            try:
                d = ("value", p.dereference())
            except NullPointerDereference:
                ctx.check(f"element {i}: only a null pointer raises the null-dereference error", rv["p"][i] == 0)
                continue
            except Exception as e:  # noqa: BLE001
                d = ("error", H.classify(e))
            ctx.check(f"element {i}: dereferencing does not move the stream", s.tell() == before)
            if d[0] == "value":
                a = R.rt.concretize(rv["p"][i])
                try:
                    tv, _ = H.ref_parser(ctx, cfg).parse(TT, data, a)
                    ctx.check(f"element {i}: dereference == parse of the target at that offset", R.value_eq(TT, d[1], tv))
                except R.RefEOF:
                    ctx.check(f"element {i}: value only where the target can be parsed", False)
    return run


def make_nostream(case):
    TT, cfg = case["target"], case["cfg"]
    T = ["struct", "test", [["a", G.U8, None], ["p", ["ptr", TT], None], ["t", G.U8, None]], False]
    cs, cls = H.load(T, cfg)
    w = G.PTR_BYTES[cfg["pointer"]]

    def run(ctx):
        from dissect.cstruct.exceptions import NullPointerDereference
        x = ctx.int("x", -1, 1 << (8 * w))
        v = cls(a=1, p=x, t=2)
        try:
            o = v.dumps()
            ctx.observe("outcome", "dumped")
            ctx.check("only addresses that fit the pointer width are written", R.And(x >= 0, x < (1 << (8 * w))))
            big = cfg["endian"] == ">"
            L = H.layout(cfg)
            offs, size, _ = L.struct_layout(T)
            exp = R.encode_int(x, w, False, big)
            ctx.check("dumping writes the address unchanged", R.And(len(o) == size, *[o[offs[1][0] + i] == exp[i] for i in range(w)]))
        except Exception as e:  # noqa: BLE001
            ctx.observe("outcome", "rejected")
            ctx.check("an address that does not fit the pointer width is rejected", R.Or(x < 0, x >= (1 << (8 * w))), H.classify(e))
        d = cls()
        try:
            d.p.dereference()
            ctx.check("default pointer (null, no stream) raises the null-dereference error", False)
        except NullPointerDereference:
            pass
        except Exception as e:  # noqa: BLE001
            ctx.check("default pointer raises the dedicated error", False, H.classify(e))
        ptr_t = cls.__fields__[1].type
        pp = ptr_t.__new__(ptr_t, 4, None)
        try:
            pp.dereference()
            ctx.check("pointer without a stream raises the null-dereference error", False)
        except NullPointerDereference:
            pass
    return run


def make_lookalike(case):
    """Structures that differ only in the pointer's target type get their own pointer types (one cstruct, both readers)."""
    cfg = case["cfg"]

    def run(ctx):
        from dissect.cstruct import cstruct
        cs = cstruct(endian=cfg["endian"], pointer=cfg["pointer"])
        cs.load("struct inner { uint8 x; int16 y; };\nstruct A { uint8 a; uint16 *p; uint8 t; };\nstruct B { uint8 a; inner *p; uint8 t; };\n"
                "struct C { uint8 a; char *p; uint8 t; };\n", compiled=cfg["compiled"], align=cfg["align"])
        w = G.PTR_BYTES[cfg["pointer"]]
        data = ctx.bytes("b", 2 * w + 8)
        big = cfg["endian"] == ">"
        for name, tname in (("A", "uint16"), ("B", "inner"), ("C", "char"), ("A", "uint16")):
            cls = cs.resolve(name)
            v = cls.read(ctx.stream(data))
            ctx.check(f"{name}: pointer member typed with its own target", v.p.__class__.type is cs.resolve(tname), v.p.__class__.type.__name__)
        vb = cs.B.read(ctx.stream(data))
        off = (1 if not cfg["align"] else w)
        addr = R.decode_int(data, off, w, False, big)
        try:
            d = vb.p.dereference()
        except Exception as e:  # noqa: BLE001
            ctx.observe("deref", H.classify(e))
            return
        a = R.rt.concretize(addr)
        ref = H.ref_parser(ctx, cfg)
        try:
            rv, _ = ref.parse(G.INNER, data, a)
            ctx.check("B.p dereferences to the structure target", R.And(d.x == rv["x"], d.y == rv["y"]))
        except R.RefEOF:
            ctx.check("value only where parseable", False)
    return run


def make_width_history(case):
    """The pointer width follows the configuration at the time a pointer type is made, for targets seen before as well."""
    first, second, endian, compiled = case["first"], case["second"], case["endian"], case["compiled"]

    def run(ctx):
        from dissect.cstruct import cstruct
        cs = cstruct(endian=endian, pointer=first)
        cs.load("struct A { uint8 *p; uint16 *w; uint8 t; };", compiled=compiled)
        cs.pointer = cs.resolve(second)
        cs.load("struct B { uint8 *q; uint8 t; uint16 *w[2]; };", compiled=compiled)
        w1, w2 = G.PTR_BYTES[first], G.PTR_BYTES[second]
        ctx.check("pointer declared before the change keeps the width it was declared with", len(cs.A) == 2 * w1 + 1, f"{len(cs.A)}")
        ctx.check("pointer declared after the change has the configured width", len(cs.B) == 3 * w2 + 1, f"{len(cs.B)} vs {3 * w2 + 1}")
        data = ctx.bytes("b", 3 * w2 + 3)
        s = ctx.stream(data)
        try:
            v = cs.B.read(s)
        except Exception as e:  # noqa: BLE001
            ctx.check("structure declared after the change parses", False, H.classify(e))
            return
        big = endian == ">"
        ctx.check("pointer value = unsigned integer of the configured width", v.q == R.decode_int(data, 0, w2, False, big))
        ctx.check("following field read right after the pointer", v.t == data[w2])
        ctx.check("consumed", s.tell() == 3 * w2 + 1)
    return run


def cases(tier, seed):
    for first, second in (("uint16", "uint32"), ("uint64", "uint8"), ("uint8", "uint64"), ("uint32", "uint16")):
        for endian in "<>":
            for compiled in (False, True):
                yield {"label": f"width-history {first}->{second}", "first": first, "second": second, "endian": endian, "compiled": compiled,
                       "make": "make_width_history"}
    for ptr in ("uint8", "uint32"):
        for endian in "<>":
            for align in (False, True):
                for compiled in (False, True):
                    yield {"label": f"lookalike ptr={ptr}", "cfg": {"endian": endian, "align": align, "compiled": compiled, "pointer": ptr},
                           "make": "make_lookalike"}
    for tname, TT in TARGETS:
        for ptr in ("uint8", "uint16", "uint32", "uint64"):
            for endian in "<>":
                for align in (False, True):
                    for compiled in (False, True):
                        if tier == "quick" and align and endian == ">" and ptr in ("uint16", "uint32"):
                            continue
                        cfg = {"endian": endian, "align": align, "compiled": compiled, "pointer": ptr}
                        yield {"label": f"{tname}* ptr={ptr}", "target": TT, "cfg": cfg, "nbytes": 14 if tier == "quick" else 18}
                        if tname in ("u16", "inner") and ptr in ("uint8", "uint32"):
                            yield {"label": f"{tname}*[2] ptr={ptr}", "target": TT, "cfg": cfg, "make": "make_array"}
                        if not compiled and not align:
                            yield {"label": f"{tname}* ptr={ptr} construct", "target": TT, "cfg": cfg, "make": "make_nostream"}
