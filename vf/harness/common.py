"""Shared pieces of the harnesses: loading a generated definition into the library under test."""
from __future__ import annotations

from vf import refmodel as R
from vf.defgen import PTR_BYTES as _PB, PTR_BYTES_EXOTIC
PTR_BYTES = dict(_PB, **PTR_BYTES_EXOTIC)

PREAMBLE = "#define K1 1\n"
CONSTS = {"K1": 1}


def load(T, cfg, *, compiled=None):
    """Load definition T with configuration cfg into a fresh cstruct.  Returns (cs, type)."""
    from dissect.cstruct import cstruct
    cs = cstruct(endian=cfg["endian"], pointer=cfg.get("pointer", "uint64"))
    compiled = cfg["compiled"] if compiled is None else compiled
    if "inner_align" in cfg:
        # the named types T depends on are declared by an earlier load() with its own alignment mode
        parts = R.render_parts(T, PREAMBLE)
        cs.load("\n".join(parts[:-1]) + "\n", compiled=compiled, align=cfg["inner_align"])
        cs.load(parts[-1] + "\n", compiled=compiled, align=cfg["align"])
        return cs, getattr(cs, T[1])
    text = R.render(T, PREAMBLE)
    cs.load(text, compiled=compiled, align=cfg["align"])
    return cs, getattr(cs, T[1])


def ref_parser(ctx, cfg):
    return R.RefParser(ctx, cfg["endian"], cfg["align"], PTR_BYTES[cfg.get("pointer", "uint64")], CONSTS)


def layout(cfg):
    return R.Layout(cfg["align"], PTR_BYTES[cfg.get("pointer", "uint64")], CONSTS)


def min_size(T, cfg):
    """Size with every dynamic part empty (lower bound of the extent)."""
    L = layout(cfg)

    def ms(T):
        s, a = L.size_align(T)
        if s is not None:
            return s
        k = T[0]
        if k == "leb":
            return 1
        if k == "arr":
            if T[2] is None:
                return ms(T[1])
            return 0
        if k == "struct":
            tot = 0
            for _, FT, bits in T[2]:
                tot += ms(FT) if not bits else 0
            return tot
        return 0
    return ms(T)


def input_len(T, cfg, slack=6, cap=40):
    L = layout(cfg)
    try:
        s, _ = L.size_align(T)
    except R.RefReject:
        return 8
    if s is not None:
        return min(cap, s + 2)
    if count_kind(T, ("leb",)) >= 2:
        slack = min(slack, 4)   # every LEB128 member forks once per input byte: keep the product of two of them small
    return min(cap, min_size(T, cfg) + slack)


def count_kind(T, kinds):
    if T[0] in kinds:
        return 1
    if T[0] in ("arr", "ptr"):
        return count_kind(T[1], kinds)
    if T[0] in ("struct", "union"):
        return sum(count_kind(f[1], kinds) for f in T[2])
    return 0


def has_kind(T, kinds):
    if T[0] in kinds:
        return True
    if T[0] in ("arr", "ptr"):
        return has_kind(T[1], kinds)
    if T[0] == "enum":
        return has_kind(T[2], kinds)
    if T[0] in ("struct", "union"):
        return any(has_kind(f[1], kinds) for f in T[2])
    return False


def has_bits(T):
    if T[0] in ("arr", "ptr"):
        return has_bits(T[1])
    if T[0] in ("struct", "union"):
        return any(f[2] or has_bits(f[1]) for f in T[2])
    return False


def classify(e):
    return type(e).__name__


def show(x):
    """Text for a detail string that never forces a symbolic value."""
    from vf import rt
    if rt.is_sym(x, 3):
        return "<symbolic>"
    try:
        return repr(x)
    except BaseException:  # noqa: BLE001
        return "<unprintable>"


def generator_supported(T):
    """Whether the source generator is expected to handle struct T itself (LEB128 members are not supported)."""
    def leaf(FT):
        while FT[0] == "arr":
            FT = FT[1]
        return FT
    return T[0] == "struct" and all(leaf(f[1])[0] != "leb" for f in T[2])
