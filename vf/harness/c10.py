"""C10 — expressions evaluate with C precedence and associativity, repeatably."""
import itertools
import random

from vf import refmodel as R
from vf.harness import common as H

PROPERTY = "C10"
BOUNDS = {"quick": "every well-formed token sequence of <= 5 tokens (operands = distinct identifiers, all 10 binary operators, unary - ~, "
                   "parentheses) plus literal spellings, sizeof, shadowing and repeated-evaluation histories; identifiers symbolic in "
                   "[-128, 127] (W=64); shift counts in [0, 8); / and % only on non-negative dividend and positive divisor",
          "thorough": "as quick with <= 7 tokens exhaustively and VERIF_SEED-random sequences up to 15 tokens; identifiers in "
                      "[-2^15, 2^15) (W=128); shift counts in [0, 16)"}
BINOPS = ["*", "/", "%", "+", "-", "<<", ">>", "&", "^", "|"]
UNOPS = ["-", "~"]


def shapes(budget):
    """All well-formed token lists with at most `budget` tokens; operands are the placeholder 'X'."""
    memo = {}

    def primary(n):
        # token lists of exactly n tokens
        key = ("p", n)
        if key in memo:
            return memo[key]
        out = []
        if n == 1:
            out.append(["X"])
        if n >= 3:
            for e in expr(n - 2):
                out.append(["("] + e + [")"])
        memo[key] = out
        return out

    def unary(n):
        key = ("u", n)
        if key in memo:
            return memo[key]
        out = list(primary(n))
        if n >= 2:
            for u in UNOPS:
                for e in unary(n - 1):
                    out.append([u] + e)
        memo[key] = out
        return out

    def expr(n):
        key = ("e", n)
        if key in memo:
            return memo[key]
        out = list(unary(n))
        for k in range(1, n - 1):
            for left in expr(k):
                for op in BINOPS:
                    for right in unary(n - k - 1):
                        out.append(left + [op] + right)
        # left-recursive generation yields each sequence once per derivation: dedupe
        seen, ded = set(), []
        for t in out:
            key2 = tuple(t)
            if key2 not in seen:
                seen.add(key2)
                ded.append(t)
        memo[key] = ded
        return ded

    for n in range(1, budget + 1):
        yield from expr(n)


def instantiate(shape):
    names = iter("abcdefgh")
    return [next(names) if t == "X" else t for t in shape]


def render(tokens, rng=None):
    out = []
    for i, t in enumerate(tokens):
        out.append(t)
    return " ".join(out)


def make(case):
    from dissect.cstruct import cstruct
    from dissect.cstruct.expression import Expression
    text, tokens = case["text"], case["tokens"]
    lo, hi = case["range"]
    smax = case["shift_max"]
    ast = R.parse_expr(tokens)
    ids = sorted({t for t in tokens if t.isalpha() and t != "sizeof" and len(t) == 1})
    cs = cstruct()
    cs.load("struct S3 { uint8 a; uint16 b; };")
    consts_cfg = case.get("consts", {})

    def guard(ctx, ast, env):
        """Stated domain: shift counts in [0, smax); / and % on non-negative dividend, positive divisor."""
        k = ast[0]
        if k == "un":
            guard(ctx, ast[2], env)
        elif k == "bin":
            guard(ctx, ast[2], env)
            guard(ctx, ast[3], env)
            sz = lambda T: len(cs.resolve(T))  # noqa: E731
            if ast[1] in ("<<", ">>"):
                c = R.eval_expr(ast[3], env, sz)
                ctx.assume(R.And(c >= 0, c < smax), f"shift counts in [0, {smax})")
            if ast[1] in ("/", "%"):
                l, r = R.eval_expr(ast[2], env, sz), R.eval_expr(ast[3], env, sz)
                ctx.assume(R.And(l >= 0, r > 0), "division only on non-negative dividend and positive divisor")

    def run(ctx):
        try:
            e = Expression(cs, text)
        except Exception as ex:  # noqa: BLE001
            ctx.check("well-formed expression tokenizes", False, H.classify(ex))
            return
        results = []
        for rnd in range(case.get("rounds", 2)):
            vals = {i: ctx.int(f"{i}{rnd}", lo, hi) for i in ids}
            consts = {}
            for cname, mode in consts_cfg.items():
                consts[cname] = ctx.int(f"{cname}c{rnd}", lo, hi)
            cs.consts.clear()
            cs.consts.update(consts)
            context = dict(vals)
            for cname, mode in consts_cfg.items():
                if mode == "shadowed":
                    context[cname] = ctx.int(f"{cname}x{rnd}", lo, hi)

            def env(name, context=context, consts=consts):
                return context[name] if name in context else consts[name]
            guard(ctx, ast, env)
            expected = R.eval_expr(ast, env, lambda T: len(cs.resolve(T)))
            try:
                got = e.evaluate(context)
            except Exception as ex:  # noqa: BLE001
                ctx.observe("outcome", "raise:" + H.classify(ex))
                ctx.check(f"evaluation #{rnd + 1} of a well-formed expression returns", False, H.classify(ex))
                return
            ctx.observe(f"value{rnd}", got)
            ctx.check(f"evaluation #{rnd + 1} == C precedence/associativity reference", got == expected)
            try:
                fresh = Expression(cs, text).evaluate(context)
                ctx.check(f"evaluation #{rnd + 1} == a fresh Expression object", got == fresh)
            except Exception as ex:  # noqa: BLE001
                ctx.check("fresh object evaluates", False, H.classify(ex))
    return run


def make_define(case):
    """The same expressions through '#define NAME expr', enum member values and array lengths."""
    from dissect.cstruct import cstruct
    tokens = case["tokens"]
    ast = R.parse_expr(tokens)
    K = {"a": 5, "b": 3, "c": 2, "d": 1}

    def run(ctx):
        cs = cstruct()
        try:
            val = R.eval_expr(ast, lambda n: K[n], None)
        except (ZeroDivisionError, ValueError):
            return
        if val < 0 or val > 6:
            shift = val
        text = "".join(f"#define {k} {v}\n" for k, v in K.items())
        text += f"#define R {case['text']}\nenum E {{ M0 = {case['text']}, M1 }};\n"
        try:
            cs.load(text)
        except Exception as ex:  # noqa: BLE001
            ctx.check("definition with a well-formed expression loads", False, H.classify(ex))
            return
        ctx.check("#define folds the expression with C precedence", cs.consts["R"] == val, f"{cs.consts['R']} vs {val}")
        ctx.check("enum member value = expression, next = +1", (cs.E.M0.value, cs.E.M1.value) == (val, val + 1),
                  f"{(cs.E.M0.value, cs.E.M1.value)} vs {(val, val + 1)}")
        # array length evaluated at parse time over a field
        cs2 = cstruct()
        cs2.load("".join(f"#define {k} {v}\n" for k, v in K.items() if k != "a") +
                 f"struct T {{ uint8 a; uint8 d[({case['text']}) & 3]; uint8 t; }};")
        data = ctx.bytes("b", 6)
        try:
            v = cs2.T.read(ctx.stream(data))
        except EOFError:
            return
        except Exception as ex:  # noqa: BLE001
            ctx.observe("outcome", H.classify(ex))
            return
        try:
            exp = R.eval_expr(ast, lambda n: data[0] if n == "a" else K[n], None) & 3
        except (ZeroDivisionError, ValueError):
            return
        ctx.check("array length = expression over the parsed field, C precedence", len(v.d) == exp)
    return run


LITERALS = ["0", "7", "10", "0x1F", "0X1f", "010", "0777", "0b101", "0B11", "7u", "7U", "9l", "9L", "9ul", "9UL", "9ull", "9ULL", "9lu",
            "9llu", "9LL", "0x10u", "0x10UL", "012u", "0b1l", "100000000000000000000", "00"]


def cases(tier, seed):
    quick = tier == "quick"
    rng_range = [-128, 127] if quick else [-(1 << 15), (1 << 15) - 1]
    width = 64 if quick else 128
    smax = 8 if quick else 16
    base = {"range": rng_range, "width": width, "shift_max": smax}
    n = 5 if quick else 7
    for shape in shapes(n):
        toks = instantiate(shape)
        text = " ".join(toks)
        yield dict(base, label=text, text=text, tokens=toks)
    # spacing variants and literal spellings
    for lit in LITERALS:
        for tmpl in (["L", "+", "a"], ["a", "*", "L", "-", "L"], ["-", "L"], ["~", "L", "|", "a"]):
            toks = [lit if t == "L" else t for t in tmpl]
            yield dict(base, label="lit " + " ".join(toks), text="".join(toks) if len(lit) < 6 else " ".join(toks), tokens=toks,
                       width=max(width, 192 if len(lit) > 12 else 0))
    for text, toks in (("a+b*c", ["a", "+", "b", "*", "c"]), ("a  +\tb", ["a", "+", "b"]), ("(a+b)*c", ["(", "a", "+", "b", ")", "*", "c"]),
                       ("a<<b>>c", ["a", "<<", "b", ">>", "c"]), ("-a- -b", ["-", "a", "-", "-", "b"]), ("~-a", ["~", "-", "a"]),
                       ("a-(-b)", ["a", "-", "(", "-", "b", ")"]), ("(a)-b", ["(", "a", ")", "-", "b"]), ("(a)-(b)", ["(", "a", ")", "-", "(", "b", ")"]),
                       ("a*-b", ["a", "*", "-", "b"]), ("a&~b", ["a", "&", "~", "b"]), ("-(a+b)", ["-", "(", "a", "+", "b", ")"]),
                       ("-~-~a", ["-", "~", "-", "~", "a"])):
        yield dict(base, label="spacing " + text, text=text, tokens=toks)
    for text, toks in (("sizeof(uint32) + a", ["sizeof", "(", "uint32", ")", "+", "a"]), ("a * sizeof(S3)", ["a", "*", "sizeof", "(", "S3", ")"]),
                       ("sizeof(uint8) - sizeof(uint64) - a", ["sizeof", "(", "uint8", ")", "-", "sizeof", "(", "uint64", ")", "-", "a"]),
                       ("-sizeof(S3)", ["-", "sizeof", "(", "S3", ")"]), ("a << sizeof(uint16)", ["a", "<<", "sizeof", "(", "uint16", ")"]),
                       ("sizeof(int24)*sizeof(S3)+a", ["sizeof", "(", "int24", ")", "*", "sizeof", "(", "S3", ")", "+", "a"])):
        yield dict(base, label="sizeof " + text, text=text, tokens=toks)
    for text, toks, consts in (("KA + a", ["KA", "+", "a"], {"KA": "const"}), ("KA - a * KB", ["KA", "-", "a", "*", "KB"], {"KA": "shadowed", "KB": "const"}),
                               ("KA", ["KA"], {"KA": "shadowed"}), ("-KA * KA", ["-", "KA", "*", "KA"], {"KA": "shadowed"}),
                               ("KA | KB ^ a", ["KA", "|", "KB", "^", "a"], {"KA": "const", "KB": "shadowed"})):
        yield dict(base, label="ident " + text, text=text, tokens=toks, consts=consts, rounds=3)
    # unbounded integers: operands beyond 2^53 / 2^64 (concrete literals; a float detour in / or % shows here)
    bigs = ["0xFFFFFFFFFFFFFFFF", "18446744073709551615", "0x20000000000001", "9007199254740993", "0x7FFFFFFFFFFFFFFFFFFFFFFF", "123456789012345678901234567890"]
    for b in bigs:
        for tmpl in (["L", "/", "1", "+", "a"], ["L", "%", "0x10", "+", "a"], ["L", "/", "3", "*", "3", "+", "L", "%", "3", "-", "a"],
                     ["(", "L", "+", "a", ")", "/", "7"], ["L", "%", "(", "a", "+", "1000", ")"], ["L", ">>", "3", "<<", "3", "|", "a"],
                     ["L", "/", "L"], ["L", "%", "L"], ["(", "L", "-", "1", ")", "/", "L"], ["L", "*", "L", "/", "L"]):
            toks = [b if t == "L" else t for t in tmpl]
            yield dict(base, label="big " + " ".join(toks), text=" ".join(toks), tokens=toks, width=512, range=[0, 127])
    # callers: #define, enum values, array lengths
    for shape in shapes(5):
        toks = instantiate(shape)
        if any(t in ("<<", ">>") for t in toks):
            continue
        yield {"label": "define " + " ".join(toks), "text": " ".join(toks), "tokens": toks, "make": "make_define"}
    if not quick:
        rng = random.Random(seed)
        pool = list(shapes(7))
        for i in range(1500):
            k = rng.randint(2, 3)
            parts = [rng.choice(pool) for _ in range(k)]
            shape = parts[0]
            for p in parts[1:]:
                shape = shape + [rng.choice(BINOPS)] + p
            if len(shape) > 15 or shape.count("X") > 8:
                continue
            toks = instantiate(shape)
            yield dict(base, label="rand " + " ".join(toks), text=" ".join(toks), tokens=toks)
