"""C07 — array length semantics: fixed, expression, zero-terminated and to-end-of-stream."""
import itertools

from vf import refmodel as R
from vf import defgen as G
from vf.harness import common as H
from vf import families

PROPERTY = "C07"
BOUNDS = {"all": "element types {uint8,int16,uint32,uint24,int48,uint64,char,wchar,enum:uint16,enum:int8,flag:uint8,uleb128,ileb128,float,"
                 "pointer,struct{uint8,int16},uint8[2]} x forms {[0..3],[n][m],[expr over an earlier field],[expr over constants],[wide-range expr m-3600 over a uint16 field],[],"
                 "[EOF]} x {<,>} x {packed,aligned} x {interpreted,compiled}; input: 10..24 symbolic bytes; expression counts in [-1, 3]; "
                 "zero-terminated arrays: every position of the first zero element within the input; write refusal: lists of n-1, n, "
                 "n+1 symbolic elements"}

ELEMS = [("u8", G.U8), ("i16", G.I16), ("u32", G.U32), ("u24", G.U24), ("i48", G.I48), ("u64", G.U64), ("char", G.CHAR), ("wchar", G.WCHAR),
         ("E", G.E16), ("ES", G.E8S), ("F", G.F8), ("uleb", ["leb", False]), ("ileb", ["leb", True]), ("float", ["float", "f"]),
         ("ptr", ["ptr", G.U8]), ("inner", G.INNER), ("u8[2]", G.arr(G.U8, 2))]
CNT_FIELD = ["expr", ["bin", "-", ["bin", "&", ["id", "n"], ["num", 3]], ["num", 1]]]      # (n & 3) - 1 in [-1, 2]
CNT_CONST = ["expr", ["bin", "+", ["id", "K1"], ["num", 1]]]                                   # constant fold: 2
CNT_NEG = ["expr", ["bin", "-", ["id", "K1"], ["num", 3]]]                                     # constant fold: -2 -> no elements
CNT_MIXED = ["expr", ["bin", "*", ["bin", "&", ["id", "n"], ["id", "K1"]], ["num", 2]]]         # (n & K1) * 2 in {0, 2}


def gen(tier):
    for ename, ET in ELEMS:
        zero_ok = ET[0] not in ("float", "ptr", "arr") or ET[0] == "ptr"
        for fname, cnt in (("0", 0), ("1", 1), ("2", 2), ("3", 3), ("field", CNT_FIELD), ("const", CNT_CONST), ("mixed", CNT_MIXED), ("negconst", CNT_NEG),
                           ("nul", None), ("EOF", "EOF")):
            if cnt is None and ET[0] in ("float", "arr", "ptr"):
                continue  # zero-terminated arrays are claimed for integer, char, wchar, enum, LEB128 and all-integer structures
            if ET[0] == "arr" and (cnt == "EOF" or isinstance(cnt, list)):
                pass
            fields = [["n", G.U8, None], ["d", G.arr(ET, cnt), None]]
            if cnt != "EOF":
                fields.append(["t", G.U16, None])
            yield f"{ename}[{fname}]", ["struct", "test", fields, False]
        if ET[0] != "arr":
            inner_n = 2 if ET[0] in ("enum", "leb") else 3
            yield f"{ename}[2][3]", ["struct", "test", [["n", G.U8, None], ["d", G.arr(G.arr(ET, inner_n), 2), None], ["t", G.U8, None]], False]
            yield f"{ename}[field][2]", ["struct", "test", [["n", G.U8, None], ["d", G.arr(G.arr(ET, 2), CNT_FIELD), None], ["t", G.U8, None]], False]
    # a field that has the name of a constant: the field wins
    yield "shadow", ["struct", "test", [["K1", G.U8, None], ["d", G.arr(G.U8, ["expr", ["bin", "&", ["id", "K1"], ["num", 3]]]), None], ["t", G.U8, None]], False]
    # a count expression ranging over thousands of values (in-band sentinels, sign boundaries): m - 3600 in [-3600, 61935]
    wide = ["expr", ["bin", "-", ["id", "m"], ["num", 3600]]]
    for ename, ET in (("u8", G.U8), ("i16", G.I16), ("char", G.CHAR), ("u24", G.U24), ("inner", G.INNER), ("wchar", G.WCHAR)):
        yield f"{ename}[wide]", ["struct", "test", [["m", G.U16, None], ["d", G.arr(ET, wide), None], ["t", G.U8, None]], False]
    # to-end-of-stream array of arrays whose inner length comes from an earlier field (>= 1: zero-size elements never end)
    inner_cnt = ["expr", ["bin", "+", ["bin", "&", ["id", "n"], ["num", 1]], ["num", 1]]]
    for ename, ET in (("u8", G.U8), ("i16", G.I16), ("char", G.CHAR), ("u24", G.U24)):
        yield f"{ename}[EOF][field]", ["struct", "test", [["n", G.U8, None], ["d", G.arr(G.arr(ET, inner_cnt), "EOF"), None]], False]
    # the count names a field of an anonymous structure member parsed before the array (such fields are fields of the parent)
    yield "anon-count", ["struct", "test", [[None, ["struct", "", [["n", G.U8, None], ["m", G.U8, None]], True], None],
                                             ["d", G.arr(G.U8, ["expr", ["bin", "&", ["id", "n"], ["num", 3]]]), None], ["t", G.U8, None]], False]
    # element types that share a __name__ (uint48 is named "int48"; inline structures with one tag): each array keeps its own
    for name in ("same-name-arrays", "same-tag-inline-a"):
        yield name, ["struct", "test", [list(f) for f in dict(G.CURATED)[name]], False]
    yield "late-const", ["struct", "test", [["n", G.U8, None], ["d", G.arr(G.U8, ["expr", ["bin", "&", ["id", "n"], ["num", 3]]]), None], ["t", G.U8, None]], False]
    yield "two-arrays", ["struct", "test", [["n", G.U8, None], ["m", G.U8, None], ["a", G.arr(G.U16, ["expr", ["bin", "&", ["id", "n"], ["num", 1]]]), None],
                                             ["b", G.arr(G.CHAR, ["expr", ["bin", "+", ["bin", "&", ["id", "m"], ["num", 1]], ["bin", "&", ["id", "n"], ["num", 1]]]]), None],
                                             ["t", G.U8, None]], False]


def parse_vs_reference(ctx, T, cfg, cls, data, *, label=""):
    """Run the library and the reference on `data`; returns (lib value | None, ref value | None, ref pos, ref parser)."""
    s = ctx.stream(data)
    try:
        v = cls.read(s)
        lib = ("value", v, s.tell())
    except Exception as e:  # noqa: BLE001
        lib = ("error", H.classify(e), None)
    ref = H.ref_parser(ctx, cfg)
    ref.partial_eof = False
    ref.canonical_leb = False   # parse only: padded (non-minimal) LEB128 encodings are inputs too, a padded zero ends x[]
    try:
        rv, rpos = ref.parse(T, data, 0)
        r = ("value", rv, rpos)
    except R.RefEOF:
        r = ("eof", None, None)
    return lib, r, ref


def make(case):
    T, cfg = case["T"], case["cfg"]
    try:
        cs, cls = H.load(T, cfg)
        if case["label"] == "late-const":
            # a constant named like an earlier field, defined AFTER the structure: the field still wins
            cs.load("#define n 2")
        err = None
    except Exception as e:  # noqa: BLE001
        err = H.classify(e) + ": " + str(e)[:80]
    n = case["nbytes"]

    def run(ctx):
        ctx.check("definition loads", err is None, err)
        if err:
            return
        data = ctx.bytes("b", n)
        if case.get("nonzero_units"):
            # long strings: the first units are constrained to be non-zero (no fork), the units around the 64/256-byte marks
            # that block-wise readers use stay free
            units, w = case["nonzero_units"]
            for i in range(units):
                if T[2][1][1][1][0] == "wchar":   # both bytes in 1..0x7f: non-zero and no surrogate in either byte order (no fork)
                    ctx.constrain(R.And(*[R.And(data[1 + i * w + j] >= 1, data[1 + i * w + j] <= 0x7F) for j in range(w)]))
                else:
                    ctx.constrain(R.Or(*[data[1 + i * w + j] != 0 for j in range(w)]))
        if case["label"].endswith("[wide]"):
            m = R.decode_int(data, 0, 2, False, cfg["endian"] == ">")
            ctx.assume(m <= 3603, "wide-range count cases: count expression m - 3600 <= 3 (all negative values and 0..3)")
        lib, r, ref = parse_vs_reference(ctx, T, cfg, cls, data)
        ctx.observe("outcome", f"{lib[0]}/{r[0]}" + (":" + lib[1] if lib[0] == "error" else ""))
        if r[0] == "eof":
            ctx.check("input shorter than the array extent is not parsed to a value", lib[0] == "error")
            if lib[0] == "error":
                ctx.check("premature end raises EOFError", lib[1] == "EOFError", lib[1])
            return
        if lib[0] == "error":
            if ref.partial_eof and lib[1] == "EOFError":
                return  # trailing partial element of x[EOF]: EOFError is an accepted outcome
            ctx.check("input covering the reference extent parses", False, lib[1])
            return
        _, v, pos = lib
        _, rv, rpos = r
        ctx.observe("tell", pos)
        if cfg["align"] and rpos > n:
            rpos_ok = True  # tail padding beyond the input
        ctx.check("stream position after the structure", pos == rpos, f"{H.show(pos)} vs {rpos}")
        ctx.check("array lengths, element order and element values follow the reference", R.value_eq(T, v, rv))
        for fname, FT, bits in T[2]:
            if FT[0] == "arr":
                ctx.observe("len_" + fname, len(getattr(v, fname)))
    return run


def make_write(case):
    """Dumping a fixed-size array of non-character elements with another number of elements is refused."""
    ET, cnt, cfg = case["ET"], case["count"], case["cfg"]
    T = ["struct", "test", [["d", G.arr(ET, cnt), None], ["t", G.U8, None]], False]
    cs, cls = H.load(T, cfg)

    def run(ctx):
        from dissect.cstruct.exceptions import ArraySizeError
        from vf.harness.c01 import Builder
        delta = ctx.choose("delta", 3) - 1
        m = cnt + delta
        if m < 0:
            return
        b = Builder(ctx, cs, cfg, in_range=True)
        elems = [b.build(ET, cls.__fields__[0].type.type)[0] for _ in range(m)]
        if ET[0] == "char":
            val = b""
            for e in elems:
                val = val + e
        else:
            val = elems
        v = cls(d=val, t=1)
        try:
            o = v.dumps()
            outcome = "dumped"
        except ArraySizeError:
            outcome = "ArraySizeError"
        except Exception as e:  # noqa: BLE001
            outcome = H.classify(e)
        ctx.observe("outcome", f"{delta}:{outcome}")
        if ET[0] in ("char", "wchar"):
            return
        if delta == 0:
            ctx.check("array of the declared length is written", outcome == "dumped", outcome)
        else:
            ctx.check("array of a different length is refused with ArraySizeError", outcome == "ArraySizeError", outcome)
    return run


def make_write0(case):
    """Dumping x[] writes every element handed in (zero-valued ones included) and then re-appends the zero element."""
    ET, cfg = case["ET"], case["cfg"]
    T = ["struct", "test", [["d", G.arr(ET, None), None], ["t", G.U8, None]], False]
    cs, cls = H.load(T, cfg)
    es = H.layout(cfg).size_align(ET)[0]
    big = cfg["endian"] == ">"

    def run(ctx):
        from vf.harness.c01 import Builder
        m = ctx.choose("m", 3)
        b = Builder(ctx, cs, cfg, in_range=True)
        built = [b.build(ET, cls.__fields__[0].type.type) for _ in range(m)]
        v = cls(d=[x[0] for x in built], t=0x5A)
        try:
            o = v.dumps()
        except Exception as e:  # noqa: BLE001
            ctx.check("a list of in-range elements is written", False, H.classify(e))
            return
        ctx.observe("len", len(o))
        ctx.check("dump = m elements + the zero element + the next member", len(o) == (m + 1) * es + 1, f"{len(o)} for m={m}")
        if len(o) != (m + 1) * es + 1:
            return
        ctx.check("the re-appended terminator is a zero element", R.And(*[o[m * es + i] == 0 for i in range(es)]))
        ctx.check("the next member follows the terminator", o[(m + 1) * es] == 0x5A)
        if ET[0] in ("int", "enum"):
            signed = ET[2] if ET[0] == "int" else ET[2][2]
            for i, (_, ref) in enumerate(built):
                exp = R.encode_int(ref, es, signed, big)
                ctx.check(f"element {i} written in place", R.And(*[o[i * es + j] == exp[j] for j in range(es)]))
    return run


def cases(tier, seed):
    cfgs = list(G.configs()) if tier != "quick" else list(G.configs())
    for label, T in gen(tier):
        for cfg in cfgs:
            ET = next(f[1] for f in T[2] if f[1][0] == "arr")
            wide = label.endswith("[wide]")
            while ET[0] == "arr":
                ET = ET[1]
            es = H.layout(cfg).size_align(ET)[0] or 1
            forks = 4 if ET[0] in ("enum", "leb") else 1
            n = min(24, 1 + (3 if forks > 1 else 5) * es + 3)
            if forks > 1 and label.endswith("[EOF]"):
                n = 1 + 3 * es + (es > 1)
            if wide:
                n = 2 + 3 * es + 1
            if "[2][3]" in label:
                n = 1 + (4 if forks > 1 else 6) * es + (1 if forks > 1 else 2)
            if label.startswith("same-"):
                n = H.input_len(T, cfg)
            yield {"label": label, "T": T, "cfg": cfg, "nbytes": n}
    # zero-terminated strings longer than the block sizes an optimised reader might use (64 / 256 bytes)
    for cfg in families.PAIRWISE:
        for ename, ET, w, units in (("char", G.CHAR, 1, 62), ("char", G.CHAR, 1, 126), ("wchar", G.WCHAR, 2, 30), ("wchar", G.WCHAR, 2, 126),
                                    ("u16", G.U16, 2, 126)):
            T = ["struct", "test", [["n", G.U8, None], ["d", G.arr(ET, None), None], ["t", G.U16, None]], False]
            yield {"label": f"{ename}[nul] long {units}", "T": T, "cfg": cfg, "nbytes": 1 + (units + 5) * w + 2, "nonzero_units": [units, w]}
    for ename, ET in ELEMS:
        if ET[0] in ("float", "arr"):
            continue
        for cnt in (0, 1, 2):
            for cfg in families.PAIRWISE:
                if not cfg["compiled"]:
                    yield {"label": f"write {ename}[{cnt}]", "ET": ET, "count": cnt, "cfg": cfg, "make": "make_write"}
        if ET[0] in ("int", "enum", "struct"):
            for e in "<>":
                yield {"label": f"write {ename}[]", "ET": ET, "cfg": {"endian": e, "align": False, "compiled": False, "pointer": "uint64"},
                       "make": "make_write0"}
