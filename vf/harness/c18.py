"""C18 — incrementally built or self-referential structures equal the one-shot definition."""
import itertools
import random

from vf import refmodel as R
from vf import defgen as G
from vf.harness import common as H

PROPERTY = "C18"
BOUNDS = {"all": "field sequences of 2..4 members from {uint8,uint32,int24,char[3],uint16[2],nested struct,enum,bit-fields uint16:4/:12,"
                 "zero-terminated char[],expression-sized array,pointer,uint64} (quick: curated + all pairs; thorough: all triples + "
                 "random quadruples); EVERY way of splitting the sequence into add_field/commit batches (engine decision per gap: commit "
                 "now or batch on), forward self-reference through a pointer; {packed,aligned} x {interpreted,compiled} x {<,>}; both "
                 "classes parse the same symbolic bytes"}

POOL = [("u8", G.U8, None), ("u32", G.U32, None), ("i24", G.I24, None), ("c3", G.arr(G.CHAR, 3), None), ("h2", G.arr(G.U16, 2), None),
        ("inner", G.INNER, None), ("E", G.E16, None), ("b4", G.U16, 4), ("b12", G.U16, 12), ("str", G.arr(G.CHAR, None), None),
        ("dyn", G.arr(G.U8, "X"), None), ("ptr", ["ptr", G.U16], None), ("u64", G.U64, None), ("anon", G.ANON, None)]
CURATED = [["u8", "b4", "b12", "u32"], ["u32", "str", "u8", "u64"], ["u8", "dyn", "h2", "i24"], ["inner", "u8", "u64", "c3"],
           ["b4", "b12", "b4", "u8"], ["u8", "ptr", "E", "u8"], ["u64", "u8"], ["u8", "u64", "u8", "u8"],
           ["u8", "anon", "u8"], ["anon", "u32"], ["u8", "anon", "b4", "b12"], ["u32", "anon", "u8", "u64"]]


def build_T(names):
    by = {p[0]: p for p in POOL}
    fields = []
    for i, n in enumerate(names):
        _, T, bits = by[n]
        if n == "dyn":
            first_int = bool(fields) and fields[0][1][0] == "int" and fields[0][2] is None
            T = ["arr", G.U8, G.expr_count(first_int)]
        fields.append([None if n == "anon" else f"f{i}", T, bits])
    return ["struct", "test", fields, False]


def _sig(cls):
    return (cls.size, cls.alignment, cls.dynamic, [(f._name, f.offset, f.bits, f.alignment, f.type.__name__) for f in cls.__fields__],
            sorted(cls.fields), sorted(cls.lookup))


def make(case):
    T, cfg = case["T"], case["cfg"]
    try:
        H.layout(cfg).size_align(T)
    except R.RefReject:
        return None
    n = H.input_len(T, cfg)
    k = len(T[2])

    def run(ctx):
        from dissect.cstruct import cstruct
        from dissect.cstruct.types.structure import Field
        cs1, one = H.load(T, cfg)
        # the same members added step by step to an empty structure of a second cstruct
        cs2 = cstruct(endian=cfg["endian"], pointer=cfg.get("pointer", "uint64"))
        pre = ["struct", "holder", [[f[0] or "anonholder", f[1], None] for f in T[2] if f[1][0] == "enum" or (f[1][0] == "struct" and not f[1][3]) or
                                    (f[1][0] in ("arr", "ptr") and f[1][1][0] in ("enum", "struct"))], False]
        named = []
        R.collect_named(pre, named)
        text = H.PREAMBLE + "".join((R.render_enum(N) if N[0] == "enum" else "%s %s {\n%s\n};" % (N[0], N[1], R.render_fields(N[2]))) + "\n"
                                    for N in named if N[1] != "holder")
        text += "struct test { };\n"
        cs2.load(text, compiled=cfg["compiled"], align=cfg["align"])
        inc = cs2.test
        types = [f.type for f in one.__fields__]
        # re-create each member type inside cs2 from its own (tiny) definition
        i = 0
        split = []
        while i < k:
            # engine decision: how many members go into this batch
            j = i + 1
            while j < k and ctx.choose(f"batch{j}", 2) == 1:
                j += 1
            batch = T[2][i:j]
            split.append(j - i)
            tdef = ["struct", "tmp%d" % i, [[f[0], f[1], f[2]] for f in batch], False]   # anonymous members stay anonymous
            # member types must belong to cs2: define a throw-away struct there and take its field types
            cs2.load("struct tmp%d {\n%s\n};" % (i, R.render_fields(tdef[2])), compiled=False, align=cfg["align"])
            ftypes = [f.type for f in getattr(cs2, "tmp%d" % i).__fields__]
            if len(batch) == 1:
                inc.add_field(batch[0][0], ftypes[0], bits=batch[0][2])   # name None = anonymous member
            else:
                with inc.start_update():
                    for (fname, FT, bits), ft in zip(batch, ftypes):
                        inc.add_field(fname, ft, bits=bits)
            i = j
            if i < k and case.get("use_between"):
                # the intermediate class is used (default instance dumped, zeros parsed and dumped) before it is extended further:
                # whatever the reader, the writer or a generated method remembered from that state must not survive
                try:
                    inc().dumps()
                    inc(bytes(n + 8)).dumps()
                except Exception:  # noqa: BLE001  (an intermediate state may be unusable, e.g. dynamic without data)
                    pass
        ctx.observe("split", split)
        s1, s2 = _sig(one), _sig(inc)
        ctx.check("same layout (size, alignment, offsets, names) as the one-shot definition", s1 == s2, f"{s1} vs {s2}")
        ctx.check("same reader kind (compiled if requested)", bool(one.__compiled__) == bool(inc.__compiled__),
                  f"{one.__compiled__} vs {inc.__compiled__}")
        if one.__compiled__ and inc.__compiled__:
            src1 = one._read.__func__.__source__
            src2 = inc._read.__func__.__source__
            ctx.check("same generated reader source", src1 == src2)
        data = ctx.bytes("b", n)
        out = []
        for cls in (one, inc):
            s = ctx.stream(data)
            try:
                v = cls.read(s)
                out.append(("value", v, s.tell()))
            except Exception as e:  # noqa: BLE001
                out.append(("error", H.classify(e), None))
        ctx.observe("outcome", out[0][0] + "/" + out[1][0])
        ctx.check("same parse outcome", out[0][0] == out[1][0] and (out[0][0] == "value" or out[0][1] == out[1][1]),
                  f"{out[0][:2] if out[0][0] == 'error' else 'value'} vs {out[1][:2] if out[1][0] == 'error' else 'value'}")
        if out[0][0] == out[1][0] == "value":
            v1, v2 = out[0][1], out[1][1]
            ctx.check("same parsed values", R.lib_eq(T, v1, v2))
            ctx.check("same bytes consumed", out[0][2] == out[1][2])
            try:
                d1, d2 = v1.dumps(), v2.dumps()
                ctx.check("same dump", R.bytes_eq(d1, d2))
            except Exception as e:  # noqa: BLE001
                ctx.check("both dump", False, H.classify(e))
            ctx.check("generated __eq__ of the incremental class compares all fields", (v2 == v2) is True)
            ctx.check("generated __bool__ agrees", bool(v1) == bool(v2))
        z1, z2 = one(), inc()
        try:
            ctx.check("default instances dump alike", R.bytes_eq(z1.dumps(), z2.dumps()))
        except Exception as e:  # noqa: BLE001
            ctx.check("default instances dump", False, H.classify(e))
    return run


SELF_REF = """
struct node {
    uint16 value;
    node *next;
    uint8 tag;
};
"""
SELF_REF_SPLIT = """
struct node { uint16 value; };
"""


def make_selfref(case):
    cfg = case["cfg"]

    def run(ctx):
        from dissect.cstruct import cstruct
        cs1 = cstruct(endian=cfg["endian"], pointer="uint16")
        cs1.load(SELF_REF, compiled=cfg["compiled"], align=cfg["align"])
        node = cs1.node
        # reference: the same layout without the self reference
        cs2 = cstruct(endian=cfg["endian"], pointer="uint16")
        cs2.load("struct flat { uint16 value; uint16 next; uint8 tag; };", compiled=cfg["compiled"], align=cfg["align"])
        flat = cs2.flat
        ctx.check("self-referential structure has the layout of its flat equivalent",
                  (node.size, node.alignment, [f.offset for f in node.__fields__]) == (flat.size, flat.alignment, [f.offset for f in flat.__fields__]))
        ctx.check("reader kind as requested", bool(node.__compiled__) == bool(flat.__compiled__))
        ctx.check("the pointer member points to the structure itself", node.__fields__[1].type.type is node)
        data = ctx.bytes("b", 16)
        s = ctx.stream(data)
        v = node.read(s)
        f = flat.read(ctx.stream(data))
        ctx.check("same values as the flat equivalent", R.And(v.value == f.value, v.next == f.next, v.tag == f.tag))
        ctx.check("same bytes consumed", s.tell() == len(flat))
        ctx.check("same dump", R.bytes_eq(v.dumps(), f.dumps()))
        try:
            nxt = v.next.dereference()
            a = R.rt.concretize(f.next)
            f2 = flat.read(ctx.stream(data[a:]))
            ctx.check("following the self reference parses the same structure at the target", R.And(nxt.value == f2.value, nxt.tag == f2.tag))
        except Exception as e:  # noqa: BLE001
            ctx.observe("deref", H.classify(e))
    return run


def make_api(case):
    """add_field with explicit offsets (0 included) and a batch left by an exception vs the structure made in one piece."""
    cfg, plan, mode = case["cfg"], case["plan"], case["mode"]

    def run(ctx):
        from dissect.cstruct import cstruct, compiler
        from dissect.cstruct.types.structure import Field
        cs1 = cstruct(endian=cfg["endian"])
        one = cs1._make_struct("test", [Field(f"f{i}", cs1.resolve(tn), bits=bits, offset=off) for i, (tn, bits, off) in enumerate(plan)],
                               align=cfg["align"])
        if cfg["compiled"]:
            one = compiler.compile(one)
        cs2 = cstruct(endian=cfg["endian"])
        cs2.load("struct test { };", compiled=cfg["compiled"], align=cfg["align"])
        inc = cs2.test
        items = [(f"f{i}", cs2.resolve(tn), bits, off) for i, (tn, bits, off) in enumerate(plan)]
        if mode == "each":
            for name, t, bits, off in items:
                inc.add_field(name, t, bits=bits, offset=off)
        elif mode == "batch":
            with inc.start_update():
                for name, t, bits, off in items:
                    inc.add_field(name, t, bits=bits, offset=off)
        elif mode == "aborted-last":   # the batch that added every member is left by an exception the caller handles
            try:
                with inc.start_update():
                    for name, t, bits, off in items:
                        inc.add_field(name, t, bits=bits, offset=off)
                    raise KeyError("caller's own error inside the batch")
            except KeyError:
                pass
        else:   # a batch left by an exception after the first two members, the rest added normally
            try:
                with inc.start_update():
                    for name, t, bits, off in items[:2]:
                        inc.add_field(name, t, bits=bits, offset=off)
                    raise KeyError("caller's own error inside the batch")
            except KeyError:
                pass
            for name, t, bits, off in items[2:]:
                inc.add_field(name, t, bits=bits, offset=off)
        s1, s2 = _sig(one), _sig(inc)
        ctx.check("same layout as the structure made in one piece", s1 == s2, f"{s1} vs {s2}")
        ctx.check("same reader kind", bool(one.__compiled__) == bool(inc.__compiled__), f"{one.__compiled__} vs {inc.__compiled__}")
        data = ctx.bytes("b", 24)
        q = ctx.int("q", 0, 1 << 12)
        out = []
        for cls in (one, inc):
            s = ctx.based_stream(data, q * 16)
            try:
                v = cls.read(s)
                out.append(("value", v, s.tell()))
            except Exception as e:  # noqa: BLE001
                out.append(("error", H.classify(e), None))
        ctx.check("same parse outcome", out[0][0] == out[1][0], f"{out[0][:2] if out[0][0] == 'error' else 'value'} vs {out[1][:2] if out[1][0] == 'error' else 'value'}")
        if out[0][0] == out[1][0] == "value":
            try:
                same = R.And(*[getattr(out[0][1], f"f{i}") == getattr(out[1][1], f"f{i}") for i in range(len(plan))])
            except AttributeError as e:
                same = False
                ctx.check("every member is an attribute of the parsed value", False, H.classify(e))
            ctx.check("same values", same)
            ctx.check("same position", out[0][2] == out[1][2])
            try:
                ctx.check("same dump", R.bytes_eq(out[0][1].dumps(), out[1][1].dumps()))
            except Exception as e:  # noqa: BLE001
                ctx.check("both dump", False, H.classify(e))
    return run


API_PLANS = [
    [("uint8", None, None), ("uint32", None, None), ("uint16", None, None), ("uint8", None, None)],
    [("uint32", None, None), ("uint8", None, 0), ("uint16", None, 6), ("uint8", None, None)],      # overlay at offset 0
    [("uint8", None, 2), ("uint16", None, 0), ("uint32", None, 8), ("uint8", None, None)],
    [("uint16", 4, None), ("uint16", 12, None), ("uint8", None, 0), ("uint32", None, None)],
]


def make_flags(case):
    """#[nocompile] applies to the definition it precedes only."""
    cfg = case["cfg"]

    def run(ctx):
        from dissect.cstruct import cstruct
        cs = cstruct(endian=cfg["endian"])
        cs.load(case["text"], compiled=True, align=cfg["align"])
        for name, want in case["expect"].items():
            t = cs.resolve(name)
            ctx.check(f"{name}: reader kind as requested ({'compiled' if want else 'interpreted'})", bool(t.__compiled__) == want,
                      f"{t.__compiled__}")
        one = cstruct(endian=cfg["endian"])
        one.load(case["plain"], compiled=True, align=cfg["align"])
        data = ctx.bytes("b", 24)
        for name in case["expect"]:
            a, b = cs.resolve(name), one.resolve(name)
            ra, rb = a.read(ctx.stream(data)), b.read(ctx.stream(data))
            ctx.check(f"{name}: same values as without the flags", R.bytes_eq(ra.dumps(), rb.dumps()))
    return run


FLAG_TEXTS = [
    ("#[nocompile]\ntypedef struct { uint8 a; } x_t;\nstruct node { uint16 v; node *next; };\n",
     "typedef struct { uint8 a; } x_t;\nstruct node { uint16 v; node *next; };\n", {"x_t": False, "node": True}),
    ("#[nocompile]\nstruct first { uint8 a; uint16 b; };\nstruct second { uint32 c; };\n",
     "struct first { uint8 a; uint16 b; };\nstruct second { uint32 c; };\n", {"first": False, "second": True}),
    ("struct first { uint8 a; };\n#[nocompile]\nstruct second { uint32 c; struct { uint8 x; } in; };\nstruct third { uint8 z; };\n",
     "struct first { uint8 a; };\nstruct second { uint32 c; struct { uint8 x; } in; };\nstruct third { uint8 z; };\n",
     {"first": True, "second": False, "third": True}),
]


def cases(tier, seed):
    for i, plan in enumerate(API_PLANS):
        for mode in ("each", "batch", "aborted", "aborted-last"):
            for e in "<>":
                for a in (False, True):
                    for c in (False, True):
                        yield {"label": f"api plan={i} {mode}", "plan": [list(x) for x in plan], "mode": mode,
                               "cfg": {"endian": e, "align": a, "compiled": c}, "make": "make_api"}
    for i, (text, plain, expect) in enumerate(FLAG_TEXTS):
        for e in "<>":
            yield {"label": f"config-flag scope {i}", "text": text, "plain": plain, "expect": expect, "cfg": {"endian": e, "align": e == ">"},
                   "make": "make_flags"}
    cfgs = [{"endian": e, "align": a, "compiled": c, "pointer": "uint64"} for e in "<>" for a in (False, True) for c in (False, True)]
    seqs = [list(c) for c in CURATED]
    names = [p[0] for p in POOL]
    for a, b in itertools.product(names, repeat=2):
        seqs.append([a, b])
    if tier != "quick":
        for t in itertools.product(names, repeat=3):
            seqs.append(list(t))
        rng = random.Random(seed)
        for _ in range(400):
            seqs.append([rng.choice(names) for _ in range(4)])
    for seq in seqs:
        T = build_T(seq)
        for cfg in cfgs:
            if tier == "quick" and len(seq) == 2 and cfg["endian"] == ">":
                continue
            yield {"label": "|".join(seq), "T": T, "cfg": cfg}
            if len(seq) <= 3 and (tier != "quick" or cfg["endian"] == "<"):
                yield {"label": "|".join(seq) + " used-between", "T": T, "cfg": cfg, "use_between": True}
    for cfg in cfgs:
        yield {"label": "self-reference", "cfg": cfg, "make": "make_selfref"}
