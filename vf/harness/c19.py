"""C19 — utilities: hexdump is lossless, colour cosmetic, pack/unpack/swap are inverses."""
from vf import refmodel as R
from vf import rt
from vf.harness import common as H

PROPERTY = "C19"
BOUNDS = {"all": "pack/unpack/p8..p64/u8..u64/swap*: value symbolic over [-2^130, 2^130] (accept iff it fits), widths 8..128 and the "
                 "bit-length form, every endianness spelling; hexdump/dumpstruct: data lengths 0..40 and palette boundaries enumerated, "
                 "<= 3 symbolic data bytes per dump at engine-chosen positions (the printable-column test forks per symbolic byte), "
                 "palette run lengths engine-chosen from {0,1,2,15,16,17}"}
ENDIANS = {"little": False, "big": True, "network": True, "<": False, ">": True, "!": True}
BIG = 1 << 130


def make_pack(case):
    bits, endian = case["bits"], case["endian"]
    big = ENDIANS[endian]
    n = bits // 8

    def run(ctx):
        from dissect.cstruct import utils
        v = ctx.int("v", -BIG, BIG)
        fits = R.And(v >= -(1 << (bits - 1)), v < (1 << bits))
        try:
            o = utils.pack(v, bits, endian)
        except Exception as e:  # noqa: BLE001
            ctx.observe("outcome", "rejected")
            ctx.check("only integers that do not fit are rejected", R.Not(fits), H.classify(e))
            return
        ctx.observe("outcome", "packed")
        ctx.observe("packed", o)
        ctx.check("integers that do not fit are rejected, not wrapped", fits)
        exp = R.encode_int(v, n, None, big)
        ctx.check("pack == two's complement in the requested byte order", R.And(len(o) == n, *[o[i] == exp[i] for i in range(min(n, len(o)))]))
        # inverse
        back_s = utils.unpack(o, bits, endian, True)
        back_u = utils.unpack(o, bits, endian, False)
        ctx.check("unpack(pack(v), sign=True) == v for v in the signed range", R.Implies(v < (1 << (bits - 1)), back_s == v))
        ctx.check("unpack(pack(v), sign=False) == v for v >= 0", R.Implies(v >= 0, back_u == v))
        if bits in (8, 16, 32, 64):
            p = getattr(utils, f"p{bits}")(v, endian)
            ctx.check(f"p{bits} == pack(.., {bits})", R.bytes_eq(p, o))
            u = getattr(utils, f"u{bits}")(o, endian, False)
            ctx.check(f"u{bits} == unpack(.., {bits})", u == back_u)
    return run


def make_unpack(case):
    bits, endian = case["bits"], case["endian"]
    big = ENDIANS[endian]
    n = bits // 8

    def run(ctx):
        from dissect.cstruct import utils
        data = ctx.bytes("b", n)
        for sign in (False, True):
            got = utils.unpack(data, bits, endian, sign)
            ctx.observe(f"value{sign}", got)
            ctx.check(f"unpack(sign={sign}) == reference decode", got == R.decode_int(data, 0, n, sign, big))
            back = utils.pack(got, bits, endian)
            ctx.check(f"pack(unpack(b, sign={sign})) == b", R.bytes_eq(back, data))
        try:
            utils.unpack(data[: n - 1] if n > 1 else data + data, bits, endian)
            ctx.check("a byte string of the wrong length is rejected", False)
        except ValueError:
            pass
    return run


def make_swap(case):
    bits = case["bits"]
    n = bits // 8

    def run(ctx):
        from dissect.cstruct import utils
        v = ctx.int("v", 0, (1 << bits) - 1)
        s1 = utils.swap(v, bits)
        ctx.observe("swapped", s1)
        b_le = R.encode_int(v, n, None, False)
        rev = 0
        for i in range(n):
            rev = rev | (b_le[i] << (8 * (n - 1 - i)))
        ctx.check("swap reverses the bytes", s1 == rev)
        ctx.check("swapping twice is the identity", utils.swap(s1, bits) == v)
        if bits in (16, 32, 64):
            ctx.check(f"swap{bits} == swap(.., {bits})", getattr(utils, f"swap{bits}")(v) == s1)
    return run


def make_packlen(case):
    """pack(value) without a size: the least number of bytes that hold the value."""
    endian = case["endian"]
    big = ENDIANS[endian]

    def run(ctx):
        from dissect.cstruct import utils
        v = ctx.int("v", 0, (1 << 40) - 1)
        try:
            o = utils.pack(v, None, endian)
        except Exception as e:  # noqa: BLE001
            ctx.check("pack(value) without size works for non-negative values", False, H.classify(e))
            return
        n = len(o)
        ctx.observe("len", n)
        ctx.check("pack(v): decodes back to v", utils.unpack(o, None, endian, False) == v)
        if n > 0:
            ctx.check("pack(v): minimal length", v >= (1 << (8 * (n - 1))) if n > 1 else True)
        exp = R.encode_int(v, n, None, big) if n else []
        ctx.check("pack(v): bytes in the requested order", R.And(*[o[i] == exp[i] for i in range(n)]) if n else True)
    return run


def cases(tier, seed):
    for bits in (8, 16, 24, 32, 48, 64, 128):
        for endian in ENDIANS:
            yield {"label": f"pack {bits} {endian}", "bits": bits, "endian": endian, "make": "make_pack"}
            yield {"label": f"unpack {bits} {endian}", "bits": bits, "endian": endian, "make": "make_unpack"}
        yield {"label": f"swap {bits}", "bits": bits, "make": "make_swap"}
    for endian in ENDIANS:
        yield {"label": f"pack-bitlength {endian}", "endian": endian, "make": "make_packlen"}
