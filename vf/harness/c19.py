"""C19 — utilities: hexdump is lossless, colour cosmetic, pack/unpack/swap are inverses."""
from vf import refmodel as R
from vf import rt
from vf.harness import common as H

PROPERTY = "C19"
BOUNDS = {"all": "pack/unpack/p8..p64/u8..u64/swap*: value symbolic over [-2^130, 2^130] (accept iff it fits), widths 8..128 and the "
                 "bit-length form, every endianness spelling; hexdump/dumpstruct: data lengths 0..40 and palette boundaries enumerated, "
                 "<= 3 symbolic data bytes per dump at engine-chosen positions (the printable-column test forks per symbolic byte), "
                 "palette run lengths engine-chosen from {0,1,2,15,16,17}"}
import sys as _sys
ENDIANS = {"little": False, "big": True, "network": True, "<": False, ">": True, "!": True,
           "@": _sys.byteorder == "big", "=": _sys.byteorder == "big"}
BIG = 1 << 130


def make_pack(case):
    bits, endian = case["bits"], case["endian"]
    big = ENDIANS[endian]
    n = bits // 8

    def run(ctx):
        from dissect.cstruct import utils
        v = ctx.int("v", -BIG, BIG)
        fits = R.And(v >= -(1 << (bits - 1)), v < (1 << bits))
        try:
            o = utils.pack(v, bits, endian)
        except Exception as e:  # noqa: BLE001
            ctx.observe("outcome", "rejected")
            ctx.check("only integers that do not fit are rejected", R.Not(fits), H.classify(e))
            return
        ctx.observe("outcome", "packed")
        ctx.observe("packed", o)
        ctx.check("integers that do not fit are rejected, not wrapped", fits)
        exp = R.encode_int(v, n, None, big)
        ctx.check("pack == two's complement in the requested byte order", R.And(len(o) == n, *[o[i] == exp[i] for i in range(min(n, len(o)))]))
        # inverse
        try:
            back_s = utils.unpack(o, bits, endian, True)
            back_u = utils.unpack(o, bits, endian, False)
        except Exception as e:  # noqa: BLE001
            ctx.check("unpack accepts what pack produced", False, H.classify(e))
            return
        ctx.check("unpack(pack(v), sign=True) == v for v in the signed range", R.Implies(v < (1 << (bits - 1)), back_s == v))
        ctx.check("unpack(pack(v), sign=False) == v for v >= 0", R.Implies(v >= 0, back_u == v))
        if bits in (8, 16, 32, 64):
            try:
                p = getattr(utils, f"p{bits}")(v, endian)
                ctx.check(f"p{bits} == pack(.., {bits})", R.bytes_eq(p, o))
                u = getattr(utils, f"u{bits}")(o, endian, False)
                ctx.check(f"u{bits} == unpack(.., {bits})", u == back_u)
            except Exception as e:  # noqa: BLE001
                ctx.check(f"p{bits}/u{bits} work", False, H.classify(e))
    return run


def make_unpack(case):
    bits, endian = case["bits"], case["endian"]
    big = ENDIANS[endian]
    n = bits // 8

    def run(ctx):
        from dissect.cstruct import utils
        data = ctx.bytes("b", n)
        for sign in (False, True):
            try:
                got = utils.unpack(data, bits, endian, sign)
            except Exception as e:  # noqa: BLE001
                ctx.check("unpack of a byte string of the requested width works", False, H.classify(e))
                return
            ctx.observe(f"value{sign}", got)
            ctx.check(f"unpack(sign={sign}) == reference decode", got == R.decode_int(data, 0, n, sign, big))
            back = utils.pack(got, bits, endian)
            ctx.check(f"pack(unpack(b, sign={sign})) == b", R.bytes_eq(back, data))
        try:
            utils.unpack(data[: n - 1] if n > 1 else data + data, bits, endian)
            ctx.check("a byte string of the wrong length is rejected", False)
        except ValueError:
            pass
    return run


def make_swap(case):
    bits = case["bits"]
    n = bits // 8

    def run(ctx):
        from dissect.cstruct import utils
        v = ctx.int("v", 0, (1 << bits) - 1)
        s1 = utils.swap(v, bits)
        ctx.observe("swapped", s1)
        b_le = R.encode_int(v, n, None, False)
        rev = 0
        for i in range(n):
            rev = rev | (b_le[i] << (8 * (n - 1 - i)))
        ctx.check("swap reverses the bytes", s1 == rev)
        ctx.check("swapping twice is the identity", utils.swap(s1, bits) == v)
        if bits in (16, 32, 64):
            ctx.check(f"swap{bits} == swap(.., {bits})", getattr(utils, f"swap{bits}")(v) == s1)
    return run


def make_packlen(case):
    """pack(value) without a size: the least number of bytes that hold the value."""
    endian = case["endian"]
    big = ENDIANS[endian]

    def run(ctx):
        from dissect.cstruct import utils
        v = ctx.int("v", 0, (1 << 40) - 1)
        try:
            o = utils.pack(v, None, endian)
        except Exception as e:  # noqa: BLE001
            ctx.check("pack(value) without size works for non-negative values", False, H.classify(e))
            return
        n = len(o)
        ctx.observe("len", n)
        ctx.check("pack(v): decodes back to v", utils.unpack(o, None, endian, False) == v)
        if n > 0:
            ctx.check("pack(v): minimal length", v >= (1 << (8 * (n - 1))) if n > 1 else True)
        exp = R.encode_int(v, n, None, big) if n else []
        ctx.check("pack(v): bytes in the requested order", R.And(*[o[i] == exp[i] for i in range(n)]) if n else True)
    return run


def cases(tier, seed):
    for bits in (8, 16, 24, 32, 48, 64, 128):
        for endian in ENDIANS:
            yield {"label": f"pack {bits} {endian}", "bits": bits, "endian": endian, "make": "make_pack"}
            yield {"label": f"unpack {bits} {endian}", "bits": bits, "endian": endian, "make": "make_unpack"}
        yield {"label": f"swap {bits}", "bits": bits, "make": "make_swap"}
    for endian in ENDIANS:
        yield {"label": f"pack-bitlength {endian}", "endian": endian, "make": "make_packlen"}


# ------------------------------------------------------------------------------------------ hexdump
ESC = 0x1B


def ref_hexdump(data, offset=0, prefix=""):
    """Independent reference: list of code units (int-likes) of the uncoloured dump."""
    out = []
    n = len(data)
    for li, i in enumerate(range(0, n, 16)):
        if li:
            out.append(10)
        line = [ord(c) for c in prefix] + [ord(c) for c in "%08x" % (offset + i)] + [32, 32]
        chars = []
        for j in range(16):
            if i + j < n:
                b = data[i + j]
                for nib in ((b >> 4) & 15, b & 15):
                    line.append(R.Ite(nib < 10, nib + 48, nib + 87))
                chars.append(R.Ite(R.And(b >= 0x20, b <= 0x7E), b, 46))
            else:
                line += [32, 32]
            line.append(32)
            if j == 7:
                line.append(32)
        line += [32, 32] + chars
        out += line
    return out


def strip_codes(units):
    """Remove ANSI colour sequences (concrete ESC ... 'm'); data-derived units can never be ESC."""
    out, skipping = [], False
    for u in units:
        if skipping:
            if type(u) is int and u == ord("m"):
                skipping = False
            continue
        if type(u) is int and u == ESC:
            skipping = True
            continue
        out.append(u)
    return out


def _mixed(ctx, n, positions, fill):
    sym = ctx.bytes("s", len(positions))
    base = bytes((fill + 7 * i) & 0xFF for i in range(n))
    if ctx.symbolic:
        items = list(base)
        for k, p in enumerate(positions):
            items[p] = sym.items[k]
        return rt.SBytes(items)
    b = bytearray(base)
    for k, p in enumerate(positions):
        b[p] = sym[k]
    return bytes(b)


def make_hexdump(case):
    n, positions, offset, prefix = case["n"], case["positions"], case["offset"], case["prefix"]
    runs_opts = [0, 1, 2, 15, 16, 17]

    def run(ctx):
        from dissect.cstruct import utils
        data = _mixed(ctx, n, positions, case["fill"])
        try:
            plain = utils.hexdump(data, offset=offset, prefix=prefix, output="string")
        except Exception as e:  # noqa: BLE001
            ctx.check("hexdump works for every prefix, offset and data", False, H.classify(e))
            return
        exp = ref_hexdump(data, offset, prefix)
        got = R.units_of(plain) if plain != "" else []
        ctx.observe("plain", plain)
        ctx.check("uncoloured dump: every byte once, in order, sixteen per line, running offsets",
                  len(got) == len(exp) and R.And(*[a == b for a, b in zip(got, exp)]), f"{len(got)} vs {len(exp)}")
        if case["palette"]:
            runs = [runs_opts[ctx.choose(f"run{i}", len(runs_opts))] for i in range(3)]
            colours = [utils.COLOR_BG_RED, utils.COLOR_BG_GREEN, utils.COLOR_BG_BLUE]
            pal = [(r, c) for r, c in zip(runs, colours)]
            ctx.observe("palette", runs)
            try:
                col = utils.hexdump(data, palette=list(pal), offset=offset, prefix=prefix, output="string")
            except Exception as e:  # noqa: BLE001
                ctx.check("hexdump with a palette works", False, H.classify(e) + " runs=" + str(runs))
                return
            stripped = strip_codes(R.units_of(col) if col != "" else [])
            ctx.check("a colour palette changes nothing but the inserted colour codes",
                      len(stripped) == len(exp) and R.And(*[a == b for a, b in zip(stripped, exp)]), f"runs={runs}")
    return run


DUMP_DEFS = [
    ("struct test { uint8 a; uint32 b; char c[3]; uint16 d[2]; };", 12),
    ("struct inner { uint8 x; int16 y; }; enum E : uint8 { A = 1 }; struct test { inner s; E e; uint8 *p; wchar w[2]; };", 16),
    ("struct test { uint16 n:4; uint16 m:12; uint8 k; char s[]; uint8 t; };", 8),
]


def make_dumpstruct(case):
    def run(ctx):
        from dissect.cstruct import cstruct, utils
        cs = cstruct()
        cs.load(case["text"])
        raw = bytes((case["fill"] + 11 * i) & 0x7F or 1 for i in range(case["n"] - 3)) + b"\x00\x05\x06"
        obj = cs.test(raw)
        import re as _re
        strip = lambda t: _re.sub("\x1b\\[[0-9;]*m", "", t)  # noqa: E731  (colour codes are cosmetic)
        out = strip(utils.dumpstruct(obj, output="string", color=False))
        dumped = obj.dumps()
        hd = utils.hexdump(dumped, output="string")
        ctx.check("dumpstruct shows a hex dump of exactly the structure's bytes", out.startswith("\n" + hd + "\n"))
        lines = out.split("\n\n", 2)[-1].split("\n")
        names = [ln[2:].split(":")[0] for ln in lines if ln.startswith("- ")]
        ctx.check("dumpstruct lists every field", names == [f._name for f in cs.test.__fields__], str(names))
        col = utils.dumpstruct(obj, output="string", color=True, offset=case["fill"])
        stripped = strip(col)
        plain = strip(utils.dumpstruct(obj, output="string", color=False, offset=case["fill"]))
        ctx.check("colour changes nothing but the colour codes", stripped == plain)
        # a field modified after parsing is listed with its current value
        f0 = cs.test.__fields__[0]
        if not f0.bits and f0.type.__name__ in ("uint8", "uint16", "uint32"):
            obj2 = cs.test(raw)
            setattr(obj2, f0._name, 0x5A)
            listing = strip(utils.dumpstruct(obj2, output="string", color=False)).split("\n\n", 2)[-1].split("\n")
            ctx.check("dumpstruct lists the current value of a modified field", f"- {f0._name}: 0x5a" in listing, str(listing[:3]))
            ctx.check("dumpstruct hex-dumps the current bytes of a modified structure",
                      strip(utils.dumpstruct(obj2, output="string", color=False)).startswith("\n" + utils.hexdump(obj2.dumps(), output="string") + "\n"))
        # a field added to the class later is listed as well
        cs3 = cstruct()
        cs3.load(case["text"], compiled=False)
        utils.dumpstruct(cs3.test(raw), output="string", color=False)
        cs3.test.add_field("zz_added", cs3.uint8)
        grown = cs3.test(raw + b"\x07")
        names3 = [ln[2:].split(":")[0] for ln in strip(utils.dumpstruct(grown, output="string", color=False)).split("\n\n", 2)[-1].split("\n")
                  if ln.startswith("- ")]
        ctx.check("dumpstruct lists a field added after an earlier dump", names3 == [f._name for f in cs3.test.__fields__], str(names3))
        # parse form: dumpstruct(type, data)
        out2 = strip(utils.dumpstruct(cs.test, raw, output="string", color=False))
        ctx.check("dumpstruct(type, data) dumps the given bytes", out2.startswith("\n" + utils.hexdump(raw, output="string") + "\n"))
    return run


_pack_cases = cases


def cases(tier, seed):  # noqa: F811
    yield from _pack_cases(tier, seed)
    lengths = [0, 1, 2, 7, 8, 9, 15, 16, 17, 31, 32, 33, 40] if tier == "quick" else list(range(0, 41))
    for n in lengths:
        posets = [[]] if n == 0 else [[0], [n - 1], sorted({0, n // 2, n - 1}), []]
        if n > 17:
            posets.append([15, 16, 17])
        for k, positions in enumerate(posets):
            for palette in (False, True):
                if palette and len(positions) > (1 if tier == "quick" else 2):
                    continue
                yield {"label": f"hexdump n={n} sym@{positions} palette={palette}", "n": n, "positions": positions,
                       "offset": [0, 0x1FF0, 16, 0xFFFFFFF0, 1 << 40][(k + n) % 5], "prefix": ["", "> ", "{0}} {{x: "][(k + n) % 3], "fill": 0x20 + 13 * n, "palette": palette,
                       "make": "make_hexdump"}
    for text, n in DUMP_DEFS:
        for fill in (1, 0x41):
            yield {"label": f"dumpstruct {text[:30]}", "text": text, "n": n, "fill": fill, "make": "make_dumpstruct"}
