"""C11 — union members are coherent views of one byte buffer."""
import itertools

from vf import refmodel as R
from vf import defgen as G
from vf import rt
from vf.harness import common as H

PROPERTY = "C11"
BOUNDS = {"all": "union definitions: hand-written feature interactions + every pair (quick) / triple (thorough) of members from "
                 "{uint8,uint32,int24,uint64,char[3],uint16[2],enum:uint16,struct{uint8,int16},struct{uint32,uint8}} x {<,>} x "
                 "{packed,aligned}; union bytes symbolic; initial state parsed / default / keyword-constructed; assignment histories "
                 "of length <= 2 (quick) / 3 (thorough): which member or nested field is assigned is an engine decision, assigned values "
                 "symbolic over the member's whole range"}

S_XY = ["struct", "", [["x", G.U8, None], ["y", G.U8, None]], True]
S_LOHI = ["struct", "", [["lo", G.U16, None], ["hi", G.U16, None]], True]
MEMBERS = [("u8", G.U8), ("u32", G.U32), ("i24", G.I24), ("u64", G.U64), ("c3", G.arr(G.CHAR, 3)), ("h2", G.arr(G.U16, 2)), ("E", G.E16),
           ("inner", G.INNER), ("inner2", G.INNER2)]
CURATED = [
    ("views", [["a", G.U32, None], ["s", S_XY, None], ["c", G.arr(G.CHAR, 3), None], ["h", G.arr(G.U16, 2), None]]),
    ("anon-member", [["v", G.U32, None], [None, S_LOHI, None]]),
    ("small-large", [["a", G.U8, None], ["b", G.U64, None]]),
    ("round-up", [["s", G.INNER, None], ["raw", G.arr(G.U8, 5), None], ["t", G.I24, None]]),
    ("nested-deep", [["o", ["struct", "outer", [["i", G.INNER, None], ["k", G.U16, None]], False], None], ["q", G.U64, None]]),
    ("enum-wchar", [["e", G.E16, None], ["w", G.arr(G.WCHAR, 2), None], ["b", G.arr(G.U8, 4), None]]),
    ("nested-3", [["s", ["struct", "L1", [["hdr", ["struct", "L2", [["pos", ["struct", "L3", [["x", G.U8, None], ["y", G.U8, None]], False], None],
                                                              ["k", G.U8, None]], False], None], ["z", G.U16, None]], False], None],
                  ["q", G.U64, None]]),
    ("nested-3-twin", [["s", ["struct", "M1", [["hdr", ["struct", "M2", [["pos", ["struct", "M3", [["x", G.U8, None], ["y", G.U8, None]], False], None],
                                                                   ["k", G.U8, None]], False], None], ["z", G.U16, None]], False], None],
                       ["hdr", G.U32, None]]),
    ("union-in-union", [["i", ["union", "IU", [["a", G.U8, None], ["s", ["struct", "IS", [["x", G.U8, None], ["y", G.U8, None]], False], None],
                                                ["w", G.U32, None]], False], None], ["q", G.U64, None]]),
    ("short-chars", [["c", G.arr(G.CHAR, 4), None], ["v", G.U32, None]]),
    ("padded-vs-flat", [["s", G.INNER2, None], ["q", G.U64, None]]),
    ("flat-vs-padded", [["q", G.U64, None], ["s", G.INNER2, None]]),
    # an anonymous structure with holes declared BEFORE a named member of the same size: the named member is what is dumped
    ("anon-first-equal-padded", [[None, ["struct", "", [["tag", G.U8, None], ["val", G.U32, None]], True], None], ["raw", G.U64, None]]),
    ("anon-first-equal-bits", [[None, ["struct", "", [["lo", G.U32, 4], ["hi", G.U32, 4]], True], None], ["raw", G.U32, None]]),
    ("anon-largest", [["tag", G.U8, None], [None, ["struct", "", [["lo", G.U32, None], ["hi", G.U32, None]], True], None]]),
    ("anon-largest-2", [["w", G.U16, None], [None, ["struct", "", [["x", G.U8, None], ["y", G.U8, None], ["z", G.U16, None]], True], None], ["b", G.U8, None]]),
]


def gen(tier):
    for label, fields in CURATED:
        yield label, ["union", "test", fields, False]
    k = 2 if tier == "quick" else 3
    for combo in itertools.combinations(MEMBERS, k):
        yield "|".join(c[0] for c in combo), ["union", "test", [[f"m{i}", c[1], None] for i, c in enumerate(combo)], False]


def assignables(T, L):
    """(path, leaf type) of what a user can assign: members, and fields of nested structure members."""
    out = []

    def walk(prefix, fields, depth):
        for fname, FT, bits in fields:
            if fname is None:
                walk(prefix, FT[2], depth)   # anonymous member: fields reachable directly
                continue
            if FT[0] in ("struct", "union"):
                walk(prefix + [fname], FT[2], depth + 1)
                if depth == 0 and FT[0] == "struct":
                    out.append((prefix + [fname], FT))
            elif not bits:   # (bit-fields are not assignment targets here: a misfitting value is not masked, which no statement demands)
                out.append((prefix + [fname], FT))
    walk([], T[2], 0)
    return out


def sym_value(ctx, T, L, name, lib_t):
    """(library value, reference value) for an assignable leaf of type T."""
    k = T[0]
    if k in ("int", "enum", "ptr"):
        s, _ = L.size_align(T)
        signed = T[2] if k == "int" else (T[2][2] if k == "enum" else False)
        lo, hi = R.int_range(s, signed)
        v = ctx.int(name, lo, hi)
        return (lib_t(v) if k == "enum" else v), v
    if k == "arr" and T[1][0] == "char":
        b = ctx.bytes(name, T[2])
        return b, b
    if k == "arr" and T[1][0] == "wchar":
        us = []
        for i in range(T[2]):
            b = ctx.bytes(f"{name}_{i}", 2)
            u = b[0] | (b[1] << 8)
            ctx.constrain(R.Or(u < 0xD800, u > 0xDFFF))
            us.append(u)
        if ctx.symbolic:
            return rt.SStr([rt.z3.simplify(rt.z3.Extract(15, 0, rt.bv(u))) for u in us]), us
        return "".join(chr(u) for u in us), us
    if k == "arr":
        pairs = [sym_value(ctx, T[1], L, f"{name}_{i}", lib_t.type) for i in range(T[2])]
        return [p[0] for p in pairs], [p[1] for p in pairs]
    if k == "struct":
        kw, ref = {}, {}
        for f, (fname, FT, bits) in zip(lib_t.__fields__, T[2]):
            lv, rv = sym_value(ctx, FT, L, f"{name}_{fname}", f.type)
            kw[f._name], ref[fname] = lv, rv
        return lib_t(**kw), ref
    raise ValueError(T)


def _zero_value(T, L):
    k = T[0]
    if k in ("int", "enum", "ptr"):
        return 0
    if k == "char":
        return b"\x00"
    if k == "wchar":
        return [0]
    if k == "float":
        return ("floatbits", T[1], 0)
    if k == "arr":
        n = L.static_count(T[2])
        if T[1][0] == "char":
            return b"\x00" * n
        if T[1][0] == "wchar":
            return [0] * n
        return [_zero_value(T[1], L) for _ in range(n)]
    if k in ("struct", "union"):
        return {(f[0] if f[0] is not None else f[1][1]): _zero_value(f[1], L) for f in T[2]}
    raise ValueError(T)


def make(case):
    T, cfg = case["T"], case["cfg"]
    cs, cls = H.load(T, dict(cfg, compiled=False))
    L = H.layout(cfg)
    size, alignment = L.size_align(T)
    init = case["init"]
    steps = case["steps"]
    targets = assignables(T, L)
    enc = R.RefEncoder(cfg["endian"], cfg["align"], G.PTR_BYTES[cfg.get("pointer", "uint64")], H.CONSTS)

    def member_type(path):
        t = cls
        for name in path:
            t = t.lookup[name].type if name in t.lookup else t.fields[name].type
        return t

    # known-finding region (KF-C11-dump-by-largest-member...): padding bytes of the member dumps() serialises on the
    # unchanged tree - the first declared member of maximal size
    padded = set()
    if cfg["align"]:
        # the member the unchanged writer serialises: the first declared largest *named* member, unless an anonymous structure
        # member is strictly larger than every named one
        named = [f for f in T[2] if not (f[0] is None and f[1][0] == "struct")]
        anon = [f for f in T[2] if f[0] is None and f[1][0] == "struct"]
        nsz = [L.size_align(f[1])[0] for f in named]
        first_largest = named[nsz.index(max(nsz))] if named else anon[0]
        if anon and (not named or L.size_align(anon[0][1])[0] > max(nsz)):
            first_largest = anon[0]
        _, mmask = enc.encode(first_largest[1], _zero_value(first_largest[1], L))
        padded = {i for i, m in enumerate(mmask) if m != 0xFF}

    def check_views(ctx, u, buf, tag):
        ctx.inputs["padded_in_first_largest_member"] = padded
        ref = H.ref_parser(ctx, cfg)
        rv, _ = ref.parse(T, buf, 0)
        ctx.check(f"{tag}: every member == parse of that member's type from the union's bytes", R.value_eq(T, u, rv))
        try:
            d = u.dumps()
        except Exception as e:  # noqa: BLE001
            ctx.check(f"{tag}: dumps", False, H.classify(e))
            return
        ctx.observe(tag + " dump", d)
        ctx.check(f"{tag}: dump has the union's size", len(d) == size, f"{len(d)} vs {size}")
        for i in range(min(size, len(d))):
            m = ref.mask.get(i, 0)
            if m:
                ctx.check(f"{tag}: dump reflects the buffer on bits that belong to some member @{i}", (d[i] & m) == (buf[i] & m))

    state = {"cls": cls}

    def member_type(path):  # noqa: F811
        t = state["cls"]
        for name in path:
            t = t.lookup[name].type if name in t.lookup else t.fields[name].type
        return t

    def run(ctx):
        cls = state["cls"]
        if init != "parse":
            # default values are created once per class and handed to every instance (C14's subject): a fresh universe per
            # path keeps this harness independent of that
            state["cls"] = cls = H.load(T, dict(cfg, compiled=False))[1]
        ctx.check("size = largest member (rounded up to the alignment in aligned mode)", len(cls) == size, f"{cls.size} vs {size}")
        ctx.check("alignment = largest member alignment", (cls.alignment or 1) == alignment)
        data = ctx.bytes("b", size + 2)
        if init == "parse":
            s = ctx.stream(data)
            u = cls.read(s)
            ctx.check("parsing consumes exactly the union size", s.tell() == size)
            buf = [data[i] for i in range(size)]
        elif init == "default":
            u = cls()
            buf = [0] * size
        else:
            named_top = {f[0] for f in T[2] if f[0] is not None}   # keyword construction takes the union's own named members
            path, LT = next(t for t in targets if len(t[0]) == 1 and t[0][0] in named_top)
            lv, rv = sym_value(ctx, LT, L, "k0", member_type(path))
            u = cls(**{path[0]: lv})
            bytes_, mask = enc.encode(LT, rv)
            buf = bytes_ + [0] * (size - len(bytes_))
        check_views(ctx, u, buf, "initial")
        failed = [None]
        ctx.inputs["assigned"] = []

        def assign(obj, name, value):
            try:
                setattr(obj, name, value)
            except Exception as e:  # noqa: BLE001
                failed[0] = H.classify(e) + ": " + str(e)[:60]
        for step in range(steps):
            j = ctx.choose(f"target{step}", len(targets))
            path, LT = targets[j]
            ctx.inputs["assigned"].append(".".join(path))
            short = False
            if LT[0] == "arr" and LT[1][0] == "char" and LT[2] > 1 and len(path) == 1 and ctx.choose(f"short{step}", 2) == 1:
                # fewer bytes than the array holds: the member shows new bytes followed by the old tail
                short = True
                lv = rv = ctx.bytes(f"a{step}s", LT[2] - 1)
            else:
                lv, rv = sym_value(ctx, LT, L, f"a{step}", member_type(path))
            # the top-level member that carries the write, and its updated reference value
            ref = H.ref_parser(ctx, cfg)
            cur, _ = ref.parse(T, buf, 0)
            top = path[0]
            topT = None
            for fname, FT, bits in T[2]:
                if fname == top:
                    topT = FT
                elif fname is None and any(f[0] == top for f in FT[2]):
                    topT, top = FT, None
            if top is None:
                # field of an anonymous member
                holder = cur[topT[1]]
                node = holder
                for name in path[:-1]:
                    node = node[name]
                node[path[-1]] = rv
                newval = holder
                obj = u
                for name in path[:-1]:
                    obj = getattr(obj, name)
                assign(obj, path[-1], lv)
            elif len(path) == 1 and short:
                assign(u, top, lv)
                ctx.observe(f"step{step}", top + " (short)")
                if failed[0]:
                    ctx.check(f"assigning {top} works", False, failed[0])
                    return
                buf = [rv[i] if i < len(rv) else buf[i] for i in range(size)]
                check_views(ctx, u, buf, f"after short {top}")
                continue
            elif len(path) == 1:
                newval = rv
                assign(u, top, lv)
            else:
                holder = cur[top]
                node = holder
                for name in path[1:-1]:
                    node = node[name]
                node[path[-1]] = rv
                newval = holder
                obj = u
                for name in path[:-1]:
                    obj = getattr(obj, name)
                assign(obj, path[-1], lv)
            if topT is not None and topT[0] == "union" and top is not None:
                # union inside the union: its bytes with the assigned member re-encoded in place
                usize = L.size_align(topT)[0]
                old = [buf[i] for i in range(usize)]
                sub = next(f for f in topT[2] if f[0] == path[1])
                if len(path) == 2:
                    sb, _ = enc.encode(sub[1], rv)
                else:
                    r2 = H.ref_parser(ctx, cfg)
                    cur2, _ = r2.parse(sub[1], old, 0)
                    node = cur2
                    for name in path[2:-1]:
                        node = node[name]
                    node[path[-1]] = rv
                    sb, _ = enc.encode(sub[1], cur2)
                newbytes = sb + old[len(sb):]
                ctx.observe(f"step{step}", ".".join(path))
                if failed[0]:
                    ctx.check(f"assigning {'.'.join(path)} works", False, failed[0])
                    return
                buf = [newbytes[i] if i < usize else buf[i] for i in range(size)]
                check_views(ctx, u, buf, f"after {'.'.join(path)}")
                continue
            ctx.observe(f"step{step}", ".".join(path))
            if failed[0]:
                ctx.check(f"assigning {'.'.join(path)} works", False, failed[0])
                return
            nb, nmask = enc.encode(topT, newval)
            buf = [nb[i] if i < len(nb) else buf[i] for i in range(size)]
            check_views(ctx, u, buf, f"after {'.'.join(path)}")
    return run


def cases(tier, seed):
    steps = 2 if tier == "quick" else 3
    for label, T in gen(tier):
        for endian in "<>":
            for align in (False, True):
                cfg = {"endian": endian, "align": align, "pointer": "uint64"}
                for init in ("parse", "default", "kw"):
                    if tier == "quick" and "|" in label and init != "parse" and endian == ">":
                        continue
                    yield {"label": f"{label} init={init}", "T": T, "cfg": cfg, "init": init,
                           "steps": steps if (init == "parse" or "|" not in label) else 1}
