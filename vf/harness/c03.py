"""C03 — the compiled reader is observationally equivalent to the interpreted reader."""
from vf import refmodel as R
from vf.harness import common as H
from vf import families

PROPERTY = "C03"
# random 4..6-member definitions with several forking members can explode: cap them so that the budget reaches the other families
SETTINGS_THOROUGH = {"case_budget": 45.0, "max_paths": 20000}
BOUNDS = {"all": "definitions: curated + every 1-field (full alphabet) + every 2-field (core alphabet) struct [quick]; "
                 "full alphabet 2-field exhaustive, 3-field and 3..6-field random samples [thorough]; input = extent+slack symbolic "
                 "bytes (<= 40) at offset 0 and at a symbolic aligned start offset p < 2^20; every truncation is a path of the "
                 "symbolic-length reads"}


def _layout_sig(cls):
    return (cls.size, cls.alignment, cls.dynamic, [(f._name, f.offset, f.bits, f.alignment) for f in cls.__fields__])


def make(case):
    T, cfg = case["T"], case["cfg"]
    try:
        H.layout(cfg).size_align(T)
    except R.RefReject:
        return None
    try:
        cs_i, I = H.load(T, cfg, compiled=False)
    except Exception:
        return None  # loading is C06/C04's subject
    load_err = None
    try:
        cs_c, C = H.load(T, cfg, compiled=True)
    except Exception as e:  # noqa: BLE001
        load_err = H.classify(e)
    n = case["nbytes"]
    cut = case.get("cut")
    based = case.get("based", False)

    def run(ctx):
        if load_err:
            ctx.check("definition loads with compiled=True as it does interpreted", False, load_err)
            return
        if H.generator_supported(T):
            ctx.check("compiled reader installed (__compiled__)", bool(C.__compiled__) is True)
        else:
            ctx.observe("outcome", "generator-fallback" if not C.__compiled__ else "compiled")
        ctx.check("same layout (size, alignment, offsets)", _layout_sig(I) == _layout_sig(C), f"{_layout_sig(I)} vs {_layout_sig(C)}")
        data = ctx.bytes("b", n)
        if cut is not None:
            data = data[:cut]
        if based == "any":
            p = ctx.int("p", 0, 1 << 20)
            si, sc = ctx.based_stream(data, p), ctx.based_stream(data, p)
        elif based:
            A = (I.alignment or 1) if cfg["align"] else 1
            q = ctx.int("q", 0, (1 << 20) // A)
            si, sc = ctx.based_stream(data, q * A), ctx.based_stream(data, q * A)
        else:
            si, sc = ctx.stream(data), ctx.stream(data)
        out = []
        for cls, s in ((I, si), (C, sc)):
            try:
                out.append(("value", cls.read(s), s.tell()))
            except Exception as e:  # noqa: BLE001
                out.append(("error", H.classify(e), None))
        (ki, vi, ti), (kc, vc, tc) = out
        ctx.observe("outcome", f"{ki}/{kc}" + (":" + vi if ki == "error" else ""))
        ctx.check("both readers return or both raise", ki == kc, f"interpreted={ki}:{vi if ki == 'error' else ''} compiled={kc}:{vc if kc == 'error' else ''}")
        if ki == "error" and kc == "error":
            ctx.check("same exception class", vi == vc, f"{vi} vs {vc}")
        if ki == kc == "value":
            ctx.observe("tell", ti)
            ctx.check("same number of bytes consumed", ti == tc, f"{H.show(ti)} vs {H.show(tc)}")
            ctx.check("equal field values", R.lib_eq(T, vi, vc))
            szi, szc = dict(vi._sizes), dict(vc._sizes)
            keys = [k for k in set(szi) | set(szc) if szi.get(k, 0) != 0 or szc.get(k, 0) != 0]
            ctx.check("equal recorded sizes", R.And(*[szi.get(k) == szc.get(k) for k in sorted(keys)]) if keys else True,
                      f"{szi} vs {szc}")
            if based == "any" and not H.has_kind(T, ("leb",)) and not _has_eof(T):
                # written back at the same (arbitrary) stream position, the value takes as many bytes as parsing consumed there
                try:
                    out = ctx.based_stream([], p)
                    vi.write(out)
                    ctx.check("written at the same position: as many bytes as parsing consumed", out.tell() == ti, f"{H.show(out.tell())} vs {H.show(ti)}")
                except Exception as e:  # noqa: BLE001
                    ctx.check("written at the same position: parsed value can be written", False, H.classify(e))
            if "inner_align" in cfg and not based and not H.has_kind(T, ("leb",)) and not _has_eof(T):
                # mixed alignment modes at offset 0: the writer pads like the readers skip (a nested aligned structure starts at an
                # offset inside the dump that need not be a multiple of its alignment)
                try:
                    di, dc = vi.dumps(), vc.dumps()
                    ctx.check("mixed alignment: dump has as many bytes as parsing consumed", len(di) == ti, f"{len(di)} vs {H.show(ti)}")
                    ctx.check("mixed alignment: both values dump alike", R.bytes_eq(di, dc))
                except Exception as e:  # noqa: BLE001
                    ctx.check("mixed alignment: parsed value dumps", False, H.classify(e))
    return run


def _has_eof(T):
    if T[0] == "arr":
        return T[2] == "EOF" or _has_eof(T[1])
    if T[0] in ("struct", "union"):
        return any(_has_eof(f[1]) for f in T[2])
    return False


def make_fallback(case):
    """A structure the generator cannot handle falls back to the interpreted reader."""
    def run(ctx):
        from dissect.cstruct import cstruct
        from dissect.cstruct.types import BaseType

        class Odd(BaseType):
            @classmethod
            def _read(cls, stream, context=None):
                d = stream.read(2)
                if len(d) != 2:
                    raise EOFError
                return cls.__new__(cls)

            @classmethod
            def _write(cls, stream, data):
                return stream.write(b"\x00\x00")
        cs = cstruct(endian=case["cfg"]["endian"])
        cs.add_custom_type("odd", Odd, 2, 2)
        err = None
        try:
            cs.load(case["text"], compiled=True, align=case["cfg"]["align"])
        except Exception as e:  # noqa: BLE001
            err = H.classify(e)
        ctx.check("definition with a type unknown to the generator loads", err is None, err)
        if err:
            return
        ctx.check("falls back: __compiled__ is False", cs.test.__compiled__ is False)
        data = ctx.bytes("b", 8)
        try:
            v = cs.test.read(ctx.stream(data))
        except Exception as e:  # noqa: BLE001
            ctx.check("fallback reader parses", False, H.classify(e))
            return
        ref = data[0] | (data[1] << 8) if case["cfg"]["endian"] == "<" else data[1] | (data[0] << 8)
        ctx.observe("a", v.a)
        ctx.check("fallback reader parses the fields", v.a == ref)
    return run


TWINS = [
    # several structures in ONE cstruct whose generated readers have the same text but refer to different types of one name
    "struct p1 { uint8 h; struct body { uint8 a; } b; uint8 t; };\nstruct p2 { uint8 h; struct body { uint32 x; uint16 y; } b; uint8 t; };",
    "struct p1 { uint8 n; struct item { uint8 a; } v[2]; };\nstruct p2 { uint8 n; struct item { uint16 a; uint8 b; } v[2]; };",
    "struct p1 { struct hdr { uint8 k; } h; uint16 x; };\nstruct p2 { struct hdr { uint8 k; uint8 l; } h; uint16 x; };\nstruct p3 { struct hdr { uint32 k; } h; uint16 x; };",
]


def make_twins(case):
    """Every structure of a load() keeps its own nested types, whatever their names, in both readers."""
    cfg, text = case["cfg"], case["text"]

    def run(ctx):
        from dissect.cstruct import cstruct
        csi, csc = cstruct(endian=cfg["endian"]), cstruct(endian=cfg["endian"])
        csi.load(text, compiled=False, align=cfg["align"])
        csc.load(text, compiled=True, align=cfg["align"])
        names = [n for n in ("p1", "p2", "p3") if n in csi.typedefs]
        which = names[ctx.choose("which", len(names))]
        I, C = csi.resolve(which), csc.resolve(which)
        ctx.check("compiled reader installed (__compiled__)", bool(C.__compiled__) is True)
        ctx.check("same layout (size, alignment, offsets)", _layout_sig(I) == _layout_sig(C), f"{_layout_sig(I)} vs {_layout_sig(C)}")
        data = ctx.bytes("b", 16)
        out = []
        for cls in (I, C):
            s = ctx.stream(data)
            try:
                out.append(("value", cls.read(s), s.tell()))
            except Exception as e:  # noqa: BLE001
                out.append(("error", H.classify(e), None))
        ctx.check("both readers return or both raise", out[0][0] == out[1][0], f"{out[0][:2] if out[0][0] == 'error' else 'value'} vs {out[1][:2] if out[1][0] == 'error' else 'value'}")
        if out[0][0] == out[1][0] == "value":
            ctx.check("same number of bytes consumed", out[0][2] == out[1][2], f"{out[0][2]} vs {out[1][2]}")
            ctx.check("same dump", R.bytes_eq(out[0][1].dumps(), out[1][1].dumps()))
            ctx.check("equal recorded sizes", dict(out[0][1]._sizes) == dict(out[1][1]._sizes), f"{out[0][1]._sizes} vs {out[1][1]._sizes}")
    return run


OFFSET_PLANS = [
    # (type name, bits, explicit offset or None)
    [("uint8", None, 0), ("uint32", None, 6), ("uint16", None, None), ("uint8", None, 15)],
    [("uint16", None, 2), ("uint8", None, None), ("uint8", None, None), ("uint32", None, 8)],
    [("uint8", None, None), ("uint16", 4, 4), ("uint16", 12, None), ("uint8", None, None)],
    [("uint32", None, 4), ("int24", None, None), ("char", None, 12), ("uint64", None, None)],
    [("uint8", None, 1), ("uint16", None, 0), ("uint8", None, 5)],          # overlapping / going backwards
    [("uint8", None, 0), ("char[]", None, None), ("uint16", None, 1), ("uint8", None, None)],   # explicit offset after a dynamic member
    [("uint16", None, None), ("uint8[]", None, None), ("uint32", None, 2)],
]


def make_offsets(case):
    """Members placed with add_field(offset=...): the generated reader follows the recorded offsets as the interpreted one does."""
    cfg, plan = case["cfg"], case["plan"]

    def build(compiled):
        from dissect.cstruct import cstruct, compiler
        from dissect.cstruct.types.structure import Field
        cs = cstruct(endian=cfg["endian"])
        def ty(tn):
            return cs._make_array(cs.resolve(tn[:-2]), None) if tn.endswith("[]") else cs.resolve(tn)
        fields = [Field(f"f{i}", ty(tn), bits=bits, offset=off) for i, (tn, bits, off) in enumerate(plan)]
        st = cs._make_struct("test", fields, align=cfg["align"])
        if compiled:
            st = compiler.compile(st)
        return st

    def run(ctx):
        try:
            I = build(False)
        except Exception as e:  # noqa: BLE001
            ctx.observe("outcome", "rejected:" + H.classify(e))
            return
        try:
            C = build(True)
        except Exception as e:  # noqa: BLE001
            ctx.check("builds with the generator as it does without", False, H.classify(e))
            return
        ctx.check("same layout", _layout_sig(I) == _layout_sig(C), f"{_layout_sig(I)} vs {_layout_sig(C)}")
        ctx.observe("compiled", bool(C.__compiled__))
        data = ctx.bytes("b", 26)
        q = ctx.int("q", 0, 1 << 16)
        out = []
        for cls in (I, C):
            s = ctx.based_stream(data, q * 16)
            try:
                out.append(("value", cls.read(s), s.tell()))
            except Exception as e:  # noqa: BLE001
                out.append(("error", H.classify(e), None))
        ctx.check("both readers return or both raise", out[0][0] == out[1][0], f"{out[0][0]}:{out[0][1] if out[0][0] == 'error' else ''} vs {out[1][0]}:{out[1][1] if out[1][0] == 'error' else ''}")
        if out[0][0] == out[1][0] == "value":
            vi, vc = out[0][1], out[1][1]
            def feq(i):
                a, b = getattr(vi, f"f{i}"), getattr(vc, f"f{i}")
                if plan[i][0].startswith("char"):
                    return R.bytes_eq(a, b)
                if plan[i][0].endswith("[]"):
                    return len(a) == len(b) and R.And(*[x == y for x, y in zip(a, b)])
                return a == b
            ctx.check("equal field values", R.And(*[feq(i) for i in range(len(plan))]))
            ctx.check("same position afterwards", out[0][2] == out[1][2])
            ctx.check("equal recorded sizes", dict(vi._sizes) == dict(vc._sizes), f"{vi._sizes} vs {vc._sizes}")
    return run


def _is_dynamic(T, cfg):
    try:
        return H.layout(cfg).size_align(T)[0] is None
    except Exception:  # noqa: BLE001
        return False


def _has_named_struct(T):
    named = []
    R.collect_named(T, named)
    return sum(1 for N in named if N[0] in ("struct", "union")) > 1


def cases(tier, seed):
    for i, plan in enumerate(OFFSET_PLANS):
        for e in "<>":
            for a in (False, True):
                yield {"label": f"explicit-offsets {i}", "cfg": {"endian": e, "align": a}, "plan": [list(x) for x in plan], "make": "make_offsets"}
    for e in "<>":
        for a in (False, True):
            for text in ("struct test { uint16 a; odd o; uint8 t; };", "struct test { uint16 a; uint8 b:3; odd o; };",
                         "struct test { uint16 a; odd o[2]; uint8 t; };", "struct test { uint16 a; odd o[2][1]; uint8 t; };"):
                yield {"label": "fallback", "cfg": {"endian": e, "align": a}, "text": text, "make": "make_fallback"}
    for i, text in enumerate(TWINS):
        for e in "<>":
            for a in (False, True):
                yield {"label": f"twins {i}", "cfg": {"endian": e, "align": a}, "text": text, "make": "make_twins"}
    seen = set()
    for c in families.struct_cases(tier, seed):
        cfg = {k: v for k, v in c["cfg"].items() if k != "compiled"}
        key = (c["label"], tuple(sorted(cfg.items())))
        if key in seen:
            continue
        seen.add(key)
        yield dict(c, cfg=cfg)
        if len(seen) % 3 == 0 or (tier != "quick" and "|" not in c["label"]):
            yield dict(c, cfg=cfg, based=True, label=c["label"] + "@p")
        if H.has_kind(c["T"], ("ptr",)) and cfg["endian"] == "<" and cfg.get("pointer") == "uint64":
            # the pointer width is an arbitrary-width integer type (cs.pointer = uint24 / uint48)
            for pt in ("uint24", "uint48"):
                yield dict(c, cfg=dict(cfg, pointer=pt), label=c["label"] + "~" + pt)
        if _has_named_struct(c["T"]) and (tier != "quick" or len(seen) % 2 == 0 or "|" not in c["label"]):
            # the nested named structures come from an earlier load() with the other alignment mode, and the structure is
            # parsed at an arbitrary stream position (an aligned structure then pads differently than its size suggests)
            yield dict(c, cfg=dict(cfg, inner_align=not cfg["align"]), based="any", label=c["label"] + "~mixed@any")
            yield dict(c, cfg=dict(cfg, inner_align=not cfg["align"]), label=c["label"] + "~mixed")
            if cfg["align"]:
                yield dict(c, cfg=cfg, based="any", label=c["label"] + "@any")
        elif cfg["align"] and _is_dynamic(c["T"], cfg) and (tier != "quick" or len(seen) % 2 == 0 or "|" not in c["label"]):
            # aligned structure with a dynamically sized member at an arbitrary position: the padding after that member depends
            # on the absolute position, for the readers and for the writer alike
            yield dict(c, cfg=cfg, based="any", label=c["label"] + "@any")
