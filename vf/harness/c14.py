"""C14 — no hidden shared state: instances, defaults and cstruct objects are independent."""
from vf import refmodel as R
from vf import defgen as G
from vf.harness import common as H
from vf.harness.c11 import _zero_value

PROPERTY = "C14"
SETTINGS_THOROUGH = {"case_budget": 600.0}   # histories of 4 operations need minutes per case
BOUNDS = {"all": "histories of <= 3 (quick) / 4 (thorough) operations, each an engine decision among: mutate the array element / nested "
                 "structure field / scalar / char array of a default-constructed instance, of a keyword-constructed instance and of a "
                 "parsed instance (written values symbolic), parse other symbolic bytes, failing parse, dump, operations on a SECOND "
                 "cstruct (same-named types with another layout, endian change, add_type, typedef), repeated expression evaluation; "
                 "then: fresh default instance, parse of fresh symbolic bytes (vs a fresh universe and vs the reference) and instances "
                 "created before the history; {<,>} x {packed,aligned} x {interpreted,compiled}"}

INNER = G.INNER
T = ["struct", "test", [["a", G.U8, None], ["arr", G.arr(G.U16, 2), None], ["s", INNER, None], ["c", G.arr(G.CHAR, 2), None],
                        ["n", G.U8, None], ["d", G.arr(G.U8, ["expr", ["bin", "&", ["id", "n"], ["num", 1]]]), None]], False]
OTHER_TEXT = "struct inner { uint32 x; }; struct test { uint64 a; uint8 arr[3]; inner s; }; typedef uint8 myt;"

PKT_TEXT = "union pkt { uint8 tag; uint16 word; char raw[4]; };"
DIV_TEXT = "struct div { uint8 total; uint8 count; uint8 data[2 + (total & 3) / count]; uint8 t; };"

OPS = ["union-dump", "failing-evaluation", "default.arr[i]=v", "default.s.x=v", "default.a=v", "default.c=v", "kw.arr[i]=v", "parsed.arr[i]=v", "parsed.s.y=v", "parse-other",
       "failing-parse", "dump", "second-cstruct", "reparse-odd-n"]


def make(case):
    cfg = case["cfg"]
    nops = case["nops"]
    L = H.layout(cfg)

    def run(ctx):
        from dissect.cstruct import cstruct
        cs, cls = H.load(T, cfg)
        cs.load(DIV_TEXT, compiled=cfg["compiled"], align=cfg["align"])
        cs.load(PKT_TEXT, compiled=cfg["compiled"], align=cfg["align"])
        n = 24
        w0 = ctx.bytes("w0", n)
        keep_default = cls()
        keep_parsed = cls.read(ctx.stream(w0))
        hist = []
        for i in range(nops):
            op = case["first"] if i == 0 else ctx.choose(f"op{i}", len(OPS))
            hist.append(OPS[op])
            v = ctx.int(f"v{i}", 1, 0xFFFF)
            name = OPS[op]
            try:
                if name == "union-dump":
                    cs.pkt(b"\x01\x02\x03\x04").dumps()
                    bytes(cs.pkt(word=7))
                elif name == "failing-evaluation":
                    # an array length whose evaluation fails half way (division by zero), then a good one
                    try:
                        cs.div.read(ctx.stream(bytes([7, 0, 1, 2, 3, 4, 5, 6])))
                    except ZeroDivisionError:
                        pass
                elif name == "default.arr[i]=v":
                    x = cls()
                    x.arr[i % 2] = v
                elif name == "default.s.x=v":
                    x = cls()
                    x.s.x = v & 0xFF
                elif name == "default.a=v":
                    x = cls()
                    x.a = v & 0xFF
                elif name == "default.c=v":
                    x = cls()
                    x.c = b"zz"
                elif name == "kw.arr[i]=v":
                    x = cls(a=1)
                    x.arr[0] = v
                    x.s.y = 5
                elif name == "parsed.arr[i]=v":
                    x = cls.read(ctx.stream(w0))
                    x.arr[1] = v
                elif name == "parsed.s.y=v":
                    x = cls.read(ctx.stream(w0))
                    x.s.y = 3
                    x.d.append(7)
                elif name == "parse-other":
                    cls.read(ctx.stream(ctx.bytes(f"o{i}", n)))
                elif name == "failing-parse":
                    try:
                        cls.read(ctx.stream(w0[:5]))
                    except EOFError:
                        pass
                elif name == "dump":
                    cls(a=3, arr=[v, 1]).dumps()
                    keep_parsed.dumps()
                elif name == "second-cstruct":
                    other = cstruct(endian=">" if cfg["endian"] == "<" else "<")
                    other.load(OTHER_TEXT, compiled=cfg["compiled"], align=not cfg["align"])
                    other.endian = "<"
                    other.add_type("test2", other.test)
                    other.test(b"\\x00" * 32)
                elif name == "reparse-odd-n":
                    cls.read(ctx.stream(bytes([1] * 24)))
                    cls.read(ctx.stream(bytes([2] * 24)))
            except Exception as e:  # noqa: BLE001
                ctx.check(f"history step {name} runs", False, H.classify(e))
                return
        ctx.observe("history", hist)
        ctx.inputs["history"] = hist
        zero = _zero_value(["struct", "test", T[2][:-1], False], L)
        zero["d"] = []
        fresh = cls()
        for fname, FT, _ in T[2]:
            if fname == "d":
                ctx.check("fresh default instance: d is empty", len(fresh.d) == 0)
                continue
            ctx.check(f"fresh default instance after the history: field {fname} has the zero value",
                      R.value_eq(FT, getattr(fresh, fname), zero[fname]))
            ctx.check(f"default instance created before the history: field {fname} unchanged",
                      R.value_eq(FT, getattr(keep_default, fname), zero[fname]))
        z = ctx.bytes("z", n)
        after = cls.read(ctx.stream(z))
        cs2, cls2 = H.load(T, cfg)
        universe = cls2.read(ctx.stream(z))
        ref = H.ref_parser(ctx, cfg)
        rv, _ = ref.parse(T, z, 0)
        ctx.check("parse after the history == parse in a fresh universe", R.lib_eq(T, after, universe))
        ctx.check("parse after the history == reference", R.value_eq(T, after, rv))
        ref0 = H.ref_parser(ctx, cfg)
        rv0, _ = ref0.parse(T, w0, 0)
        ctx.check("instance parsed before the history is unchanged", R.value_eq(T, keep_parsed, rv0))
        pv = ctx.int("pv", 0, 255)
        try:
            pk = cs.pkt(pv)                  # first positional value = first declared member
            ctx.check("union built from a positional value after the history: first declared member gets it", R.And(pk.tag == pv, (pk.word & 0xFF) == pv if cfg["endian"] == "<" else True))
            ctx.check("union member order after the history is the declared one", [f._name for f in cs.pkt.__fields__] == ["tag", "word", "raw"])
        except Exception as e:  # noqa: BLE001
            ctx.check("positional union construction after the history works", False, H.classify(e))
        dz = ctx.bytes("dz", 1) + bytes([2]) + ctx.bytes("dr", 6)
        try:
            dv = cs.div.read(ctx.stream(dz))
            cs2.load(DIV_TEXT, compiled=cfg["compiled"], align=cfg["align"])
            du = cs2.div.read(ctx.stream(dz))
            ctx.check("expression-sized array after the history: length as in a fresh universe", len(dv.data) == len(du.data))
            ctx.check("expression-sized array after the history: length = 2 + (total & 3) / count", len(dv.data) == 2 + ((dz[0] & 3) >> 1))
            ctx.check("expression-sized array after the history: same values", R.And(dv.t == du.t, *[a == b for a, b in zip(dv.data, du.data)]))
        except Exception as e:  # noqa: BLE001
            ctx.check("parse with an expression-sized array after the history works", False, H.classify(e))
        ctx.check("types of this cstruct still bound to it", cls.cs is cs and cs.test is cls and cs.endian == cfg["endian"])
    return run


def cases(tier, seed):
    nops = 2 if tier == "quick" else 3
    for endian in "<>":
        for align in (False, True):
            for compiled in (False, True):
                cfg = {"endian": endian, "align": align, "compiled": compiled, "pointer": "uint64"}
                for first in range(len(OPS)):
                    yield {"label": f"histories first={OPS[first]} nops={nops}", "cfg": cfg, "nops": nops, "first": first}
                    if tier != "quick" and endian == "<" and not align:
                        yield {"label": f"histories first={OPS[first]} nops={nops + 1}", "cfg": cfg, "nops": nops + 1, "first": first}
