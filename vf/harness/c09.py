"""C09 — stream discipline: position independent, consistent across input kinds and call forms."""
from vf import refmodel as R
from vf import rt
from vf.harness import common as H
from vf import families
from vf.harness.c08 import has_eof

PROPERTY = "C09"
# random 4..6-member definitions with several forking members can explode: cap them so that the budget reaches the other families
SETTINGS_THOROUGH = {"case_budget": 45.0, "max_paths": 20000}
BOUNDS = {"all": "definitions of the C02 family; start offset p = A*q symbolic with q < 2^20/A (A = structure alignment in aligned "
                 "mode, else 1), unconstrained junk before p, slack bytes after the extent; two consecutive parses on one stream; input "
                 "kinds bytes/bytearray/memoryview/stream x call forms T(x), T.read(x), T.reads(x), cs.read(name, x)"}


def _parse(fn, *a):
    try:
        return ("value", fn(*a))
    except Exception as e:  # noqa: BLE001
        return ("error", H.classify(e))


def make(case):
    T, cfg = case["T"], case["cfg"]
    try:
        H.layout(cfg).size_align(T)
    except R.RefReject:
        return None
    try:
        cs, cls = H.load(T, cfg)
    except Exception:  # noqa: BLE001
        return None
    n = case["nbytes"]
    eof = has_eof(T)
    has_leb = H.has_kind(T, ("leb",))

    def run(ctx):
        data = ctx.bytes("b", n)
        s0 = ctx.stream(data)
        base = _parse(cls.read, s0)
        ctx.observe("outcome", base[0] + (":" + base[1] if base[0] == "error" else ""))
        if base[0] == "error":
            return
        v0, e0 = base[1], s0.tell()
        ctx.observe("extent", e0)
        if not eof and not has_leb:   # a non-canonical LEB128 input is re-encoded minimally (C02 states that domain)
            try:
                ctx.check("the stream is left at the start plus the encoded size (len(dumps))", e0 == len(v0.dumps()), f"{e0}")
            except Exception as e:  # noqa: BLE001
                ctx.observe("dump", H.classify(e))
        A = (cls.alignment or 1) if cfg["align"] else 1
        q = ctx.int("q", 0, (1 << 20) // A)
        p = q * A
        s1 = ctx.based_stream(data, p)
        r1 = _parse(cls.read, s1)
        ctx.check("parsing at offset p succeeds like at offset 0", r1[0] == "value", r1[1] if r1[0] == "error" else None)
        if r1[0] == "value":
            ctx.check("value at offset p == value at offset 0 (independent of bytes before p)", R.lib_eq(T, r1[1], v0))
            ctx.check("stream left at p + encoded size", s1.tell() == p + e0)
            sz0, sz1 = dict(v0._sizes), dict(r1[1]._sizes)
            ctx.check("recorded field sizes independent of p", R.And(*[sz0[k] == sz1.get(k) for k in sz0]) if sz0 else True)
        if not eof and e0 <= n:
            r2 = _parse(cls.read, ctx.stream(data[:e0]))
            ctx.check("parsing the extent alone succeeds (no dependence on bytes after it)", r2[0] == "value",
                      r2[1] if r2[0] == "error" else None)
            if r2[0] == "value":
                ctx.check("value independent of bytes after the encoded extent", R.lib_eq(T, r2[1], v0))
        # two consecutive reads on one stream == independent parses at the summed offsets
        # (the second value is encoded by the same symbolic bytes again, so no new branching is introduced)
        if not eof and e0 <= n and (not cfg["align"] or e0 % A == 0):
            s3 = ctx.based_stream(data[:e0] + data, p)
            a = _parse(cls.read, s3)
            b = _parse(cls.read, s3)
            ctx.check("second parse on the same stream succeeds like a parse of those bytes alone", a[0] == b[0] == "value",
                      f"{a[0]} / {b[0]}")
            if a[0] == b[0] == "value":
                ctx.check("second parse value == independent parse of the same bytes", R.lib_eq(T, b[1], v0))
                ctx.check("stream left at p + both encoded sizes", s3.tell() == p + 2 * e0)
    return run


def _as_kind(ctx, data, kind):
    if ctx.symbolic:
        return rt.SBytes(data.items, {"bytes": bytes, "bytearray": bytearray, "memoryview": memoryview}[kind])
    return {"bytes": bytes, "bytearray": bytearray, "memoryview": memoryview}[kind](bytes(data))


def make_kinds(case):
    T, cfg = case["T"], case["cfg"]
    try:
        H.layout(cfg).size_align(T)
    except R.RefReject:
        return None
    try:
        cs, cls = H.load(T, cfg)
    except Exception:  # noqa: BLE001
        return None
    n = case["nbytes"]

    def run(ctx):
        data = ctx.bytes("b", n)
        base = _parse(cls._read, ctx.stream(data))
        ctx.observe("outcome", base[0] + (":" + base[1] if base[0] == "error" else ""))
        forms = []
        for kind in ("bytes", "bytearray", "memoryview"):
            x = _as_kind(ctx, data, kind)
            forms.append((f"T({kind})", _parse(cls, x)))
            forms.append((f"T.read({kind})", _parse(cls.read, x)))
            forms.append((f"T.reads({kind})", _parse(cls.reads, x)))
            forms.append((f"cs.read(name, {kind})", _parse(cs.read, "test", x)))
        forms.append(("T(stream)", _parse(cls, ctx.stream(data))))
        forms.append(("T.read(stream)", _parse(cls.read, ctx.stream(data))))
        forms.append(("cs.read(name, stream)", _parse(cs.read, "test", ctx.stream(data))))
        for name, r in forms:
            ctx.check(f"{name}: same outcome as parsing the stream", r[0] == base[0] and (r[0] == "value" or r[1] == base[1]),
                      f"{r[0]}:{r[1] if r[0] == 'error' else ''} vs {base[0]}:{base[1] if base[0] == 'error' else ''}")
            if r[0] == base[0] == "value":
                ctx.check(f"{name}: same value", R.lib_eq(T, r[1], base[1]))
        # the EOF probe used by to-end-of-stream arrays restores the position
        from dissect.cstruct.types.base import _is_eof
        s = ctx.stream(data)
        s.seek(min(2, n))
        before = s.tell()
        at_end = _is_eof(s)
        ctx.check("EOF probe leaves the stream position unchanged", s.tell() == before and at_end == (n <= 2))
    return run


DYN_UNION = ["union", "du", [["n", ["int", 1, False], None], ["s", ["arr", ["char"], None], None]], False]
DYN_UNION2 = ["union", "du2", [["k", ["int", 2, False], None], ["v", ["arr", ["int", 1, False], ["expr", ["bin", "&", ["id", "k"], ["num", 3]]]], None]], False]
PAD_UNION = ["union", "test", [["s", ["struct", "ps", [["x", ["int", 1, False], None], ["y", ["int", 4, False], None]], False], None],
                               ["raw", ["int", 8, False], None]], False]
FLAT_UNION = ["union", "test", [["raw", ["int", 8, False], None], ["s", ["struct", "ps", [["x", ["int", 1, False], None], ["y", ["int", 4, False], None]], False], None]], False]
EOF_RECS = ["struct", "test", [["h", ["int", 1, False], None], ["r", ["arr", ["struct", "rec", [["p", ["int", 4, False], None], ["q", ["int", 1, False], None]], False], "EOF"], None]], False]
EXTRA_DEFS = [
    ("dyn-union-member", ["struct", "test", [["h", ["int", 1, False], None], ["u", DYN_UNION, None], ["t", ["int", 2, False], None]], False]),
    ("dyn-union-first", ["struct", "test", [["u", DYN_UNION, None], ["t", ["int", 1, False], None]], False]),
]


def cases(tier, seed):
    from vf import defgen as G
    for label, T in EXTRA_DEFS:
        for cfg in G.configs():
            yield {"label": label, "T": T, "cfg": cfg, "nbytes": 12}
    for label, T, nb in (("union-top-padded", PAD_UNION, 10), ("union-top-flat", FLAT_UNION, 10)):
        for cfg in G.configs():
            if not cfg["compiled"]:
                yield {"label": label, "T": T, "cfg": cfg, "nbytes": nb, "make": "make_kinds"}
    for cfg in G.configs():
        # input that ends right after the last element's fields (no tail padding present), and one byte later
        for nb in ((4 + 5, 4 + 8 + 5, 4 + 8 + 6) if cfg["align"] else (1 + 5, 1 + 10, 1 + 11)):
            yield {"label": f"eof-records n={nb}", "T": EOF_RECS, "cfg": cfg, "nbytes": nb, "make": "make_kinds"}
    seen = 0
    for c in families.struct_cases(tier, seed):
        if tier == "quick":
            c = dict(c, nbytes=min(20, c["nbytes"]))
        yield c
        seen += 1
        if "|" not in c["label"] or seen % 5 == 0:
            yield dict(c, make="make_kinds", label=c["label"] + "#kinds", nbytes=min(12, c["nbytes"]))
