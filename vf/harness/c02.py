"""C02 — byte fidelity: dumps(parse(b)) reproduces every data-carrying bit, padding is zero."""
from vf import refmodel as R
from vf.harness import common as H

BOUNDS = {"all": "definitions: curated + every 1-field (full alphabet) + every 2-field (core alphabet) struct [quick]; full alphabet 2-field exhaustive, 3-field and 3..6-field random samples [thorough]; x {<,>} x {packed,aligned} x {interpreted,compiled}; input = extent+slack symbolic bytes (<= 40) at offset 0; expression-sized arrays <= 3 elements; LEB128 canonical; floats non-NaN; wchar BMP non-surrogate"}

PROPERTY = "C02"
# random 4..6-member definitions with several forking members can explode: cap them so that the budget reaches the other families
SETTINGS_THOROUGH = {"case_budget": 45.0, "max_paths": 20000}


def make(case):
    T, cfg = case["T"], case["cfg"]
    try:
        H.layout(cfg).size_align(T)
    except R.RefReject:
        return None  # definitions the statement says are rejected: nothing to parse
    cs, cls = H.load(T, cfg)
    n = case["nbytes"]

    def run(ctx):
        data = ctx.bytes("b", n)
        s = ctx.stream(data)
        try:
            obj = cls.read(s)
        except Exception as e:
            ctx.observe("outcome", "parse:" + H.classify(e))
            return
        consumed = s.tell()
        ctx.observe("consumed", consumed)
        ref = H.ref_parser(ctx, cfg)
        try:
            rv, rpos = ref.parse(T, data, 0)
        except R.RefEOF:
            ctx.observe("outcome", "value-from-short-input")  # C08's business
            return
        try:
            dumped = obj.dumps()
        except Exception as e:
            ctx.observe("outcome", "dump:" + H.classify(e))
            ctx.check("dump of a parsed value succeeds", False, H.classify(e))
            return
        ctx.observe("outcome", "value")
        ctx.observe("dumped", dumped)
        ctx.check("len(dumps) == bytes consumed", len(dumped) == consumed, f"{len(dumped)} vs {consumed}")
        for i in range(min(consumed, len(dumped))):
            m = ref.mask.get(i, 0) if i < n else 0
            if m:
                ctx.check(f"data bits preserved @{i}", (dumped[i] & m) == (data[i] & m))
            if m != 0xFF:
                ctx.check(f"padding bits zero @{i}", (dumped[i] & (0xFF ^ m)) == 0)
    return run


def cases(tier, seed):
    from vf import families
    yield from families.struct_cases(tier, seed)
