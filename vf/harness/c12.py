"""C12 — enums and flags preserve every underlying value and number members like C."""
from vf import refmodel as R
from vf import defgen as G
from vf.harness import common as H

PROPERTY = "C12"
BOUNDS = {"all": "enum/flag declarations over underlying types uint8,int8,uint16,int16,uint24,uint32,int32,uint64 with gaps, "
                 "duplicates (aliases), zero, negative and combination values; every underlying value (whole range of the type, "
                 "symbolic) as scalar, array element and struct member, both readers; equality/hash over pairs of symbolic values and two "
                 "classes; numbering: the real TokenParser._enum executed with SYMBOLIC explicit values (constants in [0, 2^20], flags "
                 "[1, 2^20]) and declaration shapes of <= 5 members; concrete declaration lists through the real factory and the legacy "
                 "parser"}

DECLS = [
    ("u8", G.U8, {"A": 1, "B": 2, "C": 7}, False), ("s8", G.I8, {"N": -1, "Z": 0, "P": 5}, False),
    ("u16gap", G.U16, {"A": 0, "B": 0x100, "C": 0xFFFF}, False), ("dup", G.U8, {"A": 1, "B": 1, "C": 2}, False),
    ("u24", G.U24, {"LO": 1, "HI": 0x800000}, False), ("i32", G.I32, {"MIN": -(1 << 31), "MAX": (1 << 31) - 1}, False),
    ("u64", G.U64, {"BIG": 1 << 63, "ONE": 1}, False), ("i16", G.I16, {"M": -2, "P": 2}, False),
    ("f8", G.U8, {"X": 1, "Y": 2, "W": 8}, True), ("f16", G.U16, {"A": 1, "B": 0x8000}, True),
    ("i24", G.I24, {"N": -1, "P": 1, "LOW": -(1 << 23)}, False), ("fdup", G.U8, {"A": 1, "B": 1, "C": 2, "D": 2}, True),
    ("f32combo", G.U32, {"A": 1, "B": 2, "AB": 3}, True), ("fs8", G.I8, {"A": 1, "B": 2}, True), ("f8zero", G.U8, {"NONE": 0, "X": 4}, True),
]


def _T(name, base, members, flag):
    return ["enum", "E_" + name, base, members, flag]


def make(case):
    name, base, members, flag = case["decl"]
    ET = _T(name, base, members, flag)
    cfg = case["cfg"]
    T = ["struct", "test", [["e", ET, None], ["arr", G.arr(ET, 2), None], ["t", G.U8, None]], False]
    cs, cls = H.load(T, cfg)
    E = getattr(cs, ET[1])
    L = H.layout(cfg)
    w, _ = L.size_align(base)
    lo, hi = R.int_range(w, base[2])
    big = cfg["endian"] == ">"

    def run(ctx):
        data = ctx.bytes("b", 3 * w + 1)
        # scalar
        s = ctx.stream(data)
        try:
            e = E.read(s)
        except Exception as ex:  # noqa: BLE001
            ctx.check("every underlying value parses", False, H.classify(ex))
            return
        ref = R.decode_int(data, 0, w, base[2], big)
        ctx.inputs["neg"] = ref < 0
        ctx.observe("value", e.value)
        ctx.check("E(bytes).value == underlying integer read", e.value == ref)
        ctx.check("parsed object compares equal to its integer value", e == ref)
        is_member = R.Or(*[ref == v for v in members.values()])
        got_member = any(e is m for m in E.__members__.values())
        ctx.check("a declared member is returned exactly when the value is a declared value", R.Implies(got_member, is_member) if got_member else R.Not(is_member) if not flag else True)
        try:
            o = E.dumps(e)
            ctx.check("dumping writes the underlying integer back through the underlying type", R.bytes_eq(o, data[:w]))
        except Exception as ex:  # noqa: BLE001
            ctx.check("a parsed enum value can be dumped", False, H.classify(ex))
        # two parses of the same underlying value
        e2 = E.read(ctx.stream(data))
        ctx.check("two parses of the same value are equal", e == e2)
        ctx.check("two parses of the same value hash equally", hash(e) == hash(e2))
    return run


def make_struct(case):
    name, base, members, flag = case["decl"]
    ET = _T(name, base, members, flag)
    cfg = case["cfg"]
    # a flag over a signed type forks ~10 ways per value (enum.Flag's folding of negative values): one array element there
    T = ["struct", "test", [["e", ET, None], ["arr", G.arr(ET, 1 if flag and base[2] else 2), None], ["t", G.U8, None]], False]
    cs, cls = H.load(T, cfg)
    E = getattr(cs, ET[1])
    L = H.layout(cfg)

    def run(ctx):
        n = H.input_len(T, cfg)
        data = ctx.bytes("b", n)
        try:
            v = cls.read(ctx.stream(data))
        except Exception as ex:  # noqa: BLE001
            ctx.check("struct with enum members parses", False, H.classify(ex))
            return
        ref = H.ref_parser(ctx, cfg)
        rv, _ = ref.parse(T, data, 0)
        ctx.inputs["neg"] = R.Or(rv["e"] < 0, *[x < 0 for x in rv["arr"]])
        ctx.check("member and array elements carry the underlying integers", R.value_eq(T, v, rv))
        # an array element is the same object a scalar parse of its bytes gives: same member (name), equal, same hash
        w = L.size_align(base)[0]
        aoff = L.struct_layout(T)[0][1][0]
        for i, el in enumerate(v.arr if not (flag and base[2]) else ()):   # flags over signed types: see the known finding
            sc = E.read(ctx.stream(data[aoff + i * w:aoff + (i + 1) * w]))
            ctx.check(f"arr[{i}]: equal to the scalar parse of the same bytes", el == sc)
            ctx.check(f"arr[{i}]: hashes like the scalar parse of the same bytes", hash(el) == hash(sc))
            ctx.check(f"arr[{i}]: names the same member as the scalar parse", el.name == sc.name, f"{el.name!r} vs {sc.name!r}")
        try:
            o = v.dumps()
            ctx.check("dump reproduces the underlying bytes", R.And(*[(o[i] == data[i]) for i in range(len(o)) if ref.mask.get(i)]))
        except Exception as ex:  # noqa: BLE001
            ctx.check("dumps", False, H.classify(ex))
    return run


def make_bits(case):
    """Enum/flag typed bit-fields: shared storage unit of the underlying type, values preserved, dump inverse."""
    name, base, members, flag = case["decl"]
    ET = _T(name, base, members, flag)
    cfg = case["cfg"]
    w = H.layout(cfg).size_align(base)[0]
    nb = 8 * w
    T = ["struct", "test", [["x", ET, 3], ["y", ET, nb - 5], ["z", ET, 2], ["t", G.U8, None], ["u", base, 4], ["v", ET, 4]], False]
    cs, cls = H.load(T, cfg)

    def run(ctx):
        n = H.input_len(T, cfg)
        data = ctx.bytes("b", n)
        ref = H.ref_parser(ctx, cfg)
        rv, rpos = ref.parse(T, data, 0)
        ctx.check("layout: enum bit-fields share the storage unit of their underlying type", len(cls) == H.layout(cfg).size_align(T)[0],
                  f"{cls.size}")
        s = ctx.stream(data)
        try:
            v = cls.read(s)
        except Exception as ex:  # noqa: BLE001
            ctx.check("struct with enum bit-fields parses", False, H.classify(ex))
            return
        ctx.check("consumed = reference extent", s.tell() == rpos)
        for fname in ("x", "y", "z", "v"):
            ctx.check(f"{fname}: enum bit-field carries exactly the bits read", getattr(v, fname).value == rv[fname])
        ctx.check("u: plain bit-field after the enum ones", v.u == rv["u"])
        try:
            o = v.dumps()
            ctx.check("dump reproduces the data bits", R.And(*[(o[i] & ref.mask.get(i, 0)) == (data[i] & ref.mask.get(i, 0)) for i in range(len(o))]))
        except Exception as ex:  # noqa: BLE001
            ctx.check("dumps", False, H.classify(ex))
    return run


def make_eq(case):
    """Equality and hash over two symbolic values and two classes of the same underlying type."""
    name, base, members, flag = case["decl"]
    ET = _T(name, base, members, flag)
    OT = ["enum", "Other", base, {"A": 1, "Q": 2}, flag]
    XT = ["enum", "OtherKind", base, {"A": 1, "Q": 2}, not flag]    # the other kind (enum vs flag) over the same values
    T = ["struct", "test", [["e", ET, None], ["o", OT, None], ["x", XT, None]], False]
    cs, cls = H.load(T, case["cfg"])
    E, O, X = getattr(cs, ET[1]), cs.Other, cs.OtherKind
    w, _ = H.layout(case["cfg"]).size_align(base)
    lo, hi = R.int_range(w, base[2])

    def run(ctx):
        a, b = ctx.int("a", lo, hi), ctx.int("b", lo, hi)
        ctx.inputs["neg"] = R.Or(a < 0, b < 0)
        ea, eb, oa = E(a), E(b), O(a)
        ctx.observe("a", ea.value)
        ctx.check("E(a) == E(b) <=> a == b", R.And(R.Implies(ea == eb, a == b), R.Implies(a == b, ea == eb)))
        ctx.check("E(a) != E(b) <=> a != b", R.And(R.Implies(ea != eb, a != b), R.Implies(a != b, ea != eb)))
        ctx.check("E(a) == a", ea == a)
        ctx.check("E(a) != a + 1", ea != a + 1)
        ctx.check("members of another enum never compare equal", R.Not(ea == oa))
        ctx.check("members of another enum compare unequal", ea != oa)
        if not (base[2] and not flag):   # (a flag over a signed type folds negative values: known finding)
            xa = X(a)
            ctx.check("enum and flag members never compare equal to each other", R.And(R.Not(ea == xa), R.Not(xa == ea)))
            ctx.check("enum and flag members compare unequal to each other", R.And(ea != xa, xa != ea))
        ctx.check("equal objects hash equally", R.Implies(a == b, hash(ea) == hash(eb)))
        ctx.check("value preserved", R.And(ea.value == a, eb.value == b))
        # declared members (aliases included): equal to each other exactly when their values are, and to a parsed value exactly
        # when it has their value
        ms = list(E.__members__.values())
        for m1 in ms:
            for m2 in ms:
                if (m1 == m2) != (m1.value == m2.value) or (m1 != m2) != (m1.value != m2.value):
                    ctx.check(f"members {m1.name} and {m2.name} compare by value", False, f"{m1!r} == {m2!r}: {m1 == m2}")
                if m1.value == m2.value and hash(m1) != hash(m2) and m1.name == m2.name:
                    ctx.check(f"equal members {m1.name} and {m2.name} hash equally", False)
            ctx.check(f"E(a) == member {m1.name} <=> a == its value",
                      R.And(R.Implies(ea == m1, a == m1.value), R.Implies(a == m1.value, ea == m1), R.Implies(a == m1.value, m1 == ea)))
        ctx.check("declared members compare by value", True)
    return run


class _Stub:
    def __init__(self, name):
        self.__name__ = name
        self.__members__ = {}


def make_numbering(case):
    """The real TokenParser._enum with symbolic explicit values; the factory is intercepted to capture the mapping."""
    from dissect.cstruct import cstruct
    shape, flag = case["shape"], case["flag"]   # shape: list of "auto" | "K<i>" | "K<i>+1" | "prev" (expression over earlier member)

    def run(ctx):
        cs = cstruct()
        captured = {}

        def capture(name, type_, values):
            captured.update(values)
            captured["__order__"] = list(values)
            return _Stub(name or "E")
        cs._make_enum = capture
        cs._make_flag = capture
        ks = {}
        parts = []
        for i, sh in enumerate(shape):
            mname = f"M{i}"
            if sh == "auto":
                parts.append(mname)
            elif sh == "prev":
                parts.append(f"{mname} = M{i - 1} + 2")
            elif sh == "prevor":
                parts.append(f"{mname} = M{i - 1} | M0")
            else:
                k = sh.split("+")[0]
                if k not in ks:
                    ks[k] = ctx.int(k, 1 if flag else 0, 1 << 20)
                parts.append(f"{mname} = {sh.replace('+', ' + ')}")
        cs.consts.update(ks)
        if case.get("shadow"):
            # a constant defined earlier under the name of the first member: later members still refer to the member
            cs.consts["M0"] = ctx.int("shadow", 0, 1 << 20)
        text = f"{'flag' if flag else 'enum'} E : uint32 {{ {', '.join(parts)} }};"
        try:
            cs.load(text)
        except Exception as ex:  # noqa: BLE001
            ctx.check("declaration loads", False, H.classify(ex) + " " + str(ex)[:60])
            return
        ctx.check("members in declaration order", captured.get("__order__") == [f"M{i}" for i in range(len(shape))], str(captured.get("__order__")))
        prev = None
        for i, sh in enumerate(shape):
            got = captured.get(f"M{i}")
            ctx.observe(f"M{i}", got)
            if sh == "auto":
                if prev is None:
                    exp = 1 if flag else 0
                    ctx.check(f"M{i}: first implicit value", got == exp)
                elif flag:
                    # next higher power of two: the least power of two greater than the previous value
                    ctx.check(f"M{i}: next higher power of two after the previous member",
                              R.And(got > prev, (got & (got - 1)) == 0, got <= 2 * prev))
                else:
                    ctx.check(f"M{i}: previous + 1", got == prev + 1)
            elif sh == "prev":
                ctx.check(f"M{i}: expression over the earlier member", got == prev + 2)
            elif sh == "prevor":
                ctx.check(f"M{i}: expression over earlier members", got == (prev | captured["M0"]))
            else:
                k, _, inc = sh.partition("+")
                ctx.check(f"M{i}: explicit value", got == ks[k] + (int(inc) if inc else 0))
            prev = got
    return run


CONCRETE = [
    ("enum E : uint16 { A, B, C };", {"A": 0, "B": 1, "C": 2}),
    ("enum E : uint8 { A = 5, B, C = 1, D, E_ = 10 };", {"A": 5, "B": 6, "C": 1, "D": 2, "E_": 10}),
    ("enum E : int8 { A = -3, B, C, D };", {"A": -3, "B": -2, "C": -1, "D": 0}),
    ("enum E { A = 1, B = A, C, D = A + C * 2 };", {"A": 1, "B": 1, "C": 2, "D": 5}),
    ("enum E : uint32 {\n  A = 0x10,\n  B,\n  C = (1 << 4) | 2, D\n};", {"A": 16, "B": 17, "C": 18, "D": 19}),
    ("flag F : uint8 { A, B, C, D };", {"A": 1, "B": 2, "C": 4, "D": 8}),
    ("flag F : uint16 { A = 4, B, C = 3, D, E_ = 0x100, G };", {"A": 4, "B": 8, "C": 3, "D": 4, "E_": 256, "G": 512}),
    ("flag F : uint32 { A = 1, B = 2, AB = A | B, C };", {"A": 1, "B": 2, "AB": 3, "C": 4}),
    ("flag F { Z = 0, A, B };", {"Z": 0, "A": 1, "B": 2}),
    # two declarations in one load() spelling a value with the same text over differently valued members
    ("enum First : uint8 { A = 1, B = A + 1, C };\nenum E : uint8 { A = 0x80, B = A + 1, C };", {"A": 128, "B": 129, "C": 130}),
    ("flag First : uint8 { A = 1, B = A << 1 };\nflag F : uint16 { A = 0x10, B = A << 1, C };", {"A": 16, "B": 32, "C": 64}),
]


def make_concrete(case):
    from dissect.cstruct import cstruct
    text, expected = case["text"], case["expected"]
    legacy = case.get("legacy", False)

    def run(ctx):
        cs = cstruct()
        try:
            cs.load(text, deftype=cstruct.DEF_LEGACY if legacy else None)
        except Exception as ex:  # noqa: BLE001
            ctx.check("declaration loads", False, H.classify(ex) + " " + str(ex)[:80])
            return
        E = cs.resolve("E" if "enum E" in text or text.startswith("enum E") else "F")
        got = {k: v.value for k, v in E.__members__.items()}
        ctx.check("member values follow C numbering", got == expected, f"{got} vs {expected}")
        names = list(E.__members__)
        ctx.check("every declared name is a member (aliases included)", names == list(expected), f"{names}")
        vals = list(E.__members__.values())
        ctx.check("aliases are distinct members", len({id(v) for v in vals}) == len(vals))
        # a symbolic parse still goes through this class
        w = E.type.size
        data = ctx.bytes("b", w)
        v = E.read(ctx.stream(data))
        ctx.check("value preserved", v.value == R.decode_int(data, 0, w, getattr(E.type, "signed", E.type.__name__.startswith("int")), False))
    return run


def cases(tier, seed):
    cfgs = [{"endian": e, "align": False, "compiled": c, "pointer": "uint64"} for e in "<>" for c in (False, True)]
    for d in DECLS:
        for cfg in cfgs:
            if not cfg["compiled"]:
                yield {"label": f"scalar {d[0]}", "decl": list(d), "cfg": cfg}
                yield {"label": f"eq {d[0]}", "decl": list(d), "cfg": cfg, "make": "make_eq"}
            yield {"label": f"struct {d[0]}", "decl": list(d), "cfg": cfg, "make": "make_struct"}
            if cfg["endian"] == "<":
                yield {"label": f"struct {d[0]}", "decl": list(d), "cfg": dict(cfg, align=True), "make": "make_struct"}
            if not d[1][2] and d[1][1] in (1, 2, 4):   # unsigned 8/16/32-bit underlying types (fork count stays small)
                yield {"label": f"bits {d[0]}", "decl": list(d), "cfg": cfg, "make": "make_bits"}
    import itertools
    atoms = ["auto", "K0", "K1+1", "prev", "prevor"]
    n = 4 if tier == "quick" else 5
    for k in range(1, n + 1):
        for shape in itertools.product(atoms, repeat=k):
            if shape[0] in ("prev", "prevor"):
                continue
            for flag in (False, True):
                yield {"label": f"numbering {'flag' if flag else 'enum'} {','.join(shape)}", "shape": list(shape), "flag": flag,
                       "make": "make_numbering", "width": 64}
                if k <= 3 and ("prev" in shape or "prevor" in shape):
                    yield {"label": f"numbering {'flag' if flag else 'enum'} {','.join(shape)} shadowed", "shape": list(shape), "flag": flag,
                           "make": "make_numbering", "width": 64, "shadow": True}
    for text, exp in CONCRETE:
        yield {"label": "concrete " + text[:40].replace("\n", " "), "text": text, "expected": exp, "make": "make_concrete"}
    for text, exp in CONCRETE[:3] + CONCRETE[5:7]:
        yield {"label": "legacy " + text[:40].replace("\n", " "), "text": text, "expected": exp, "make": "make_concrete", "legacy": True}
