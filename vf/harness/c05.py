"""C05 — scalar codecs implement the standard encodings under the current endianness."""
from vf import refmodel as R
from vf import rt
from vf.harness import common as H

PROPERTY = "C05"
BOUNDS = {"all": "every built-in scalar type and alias x endian in {<,>,!}: decode of all w-byte inputs, encode of all integers in "
                 "[-2^130, 2^130] (accept iff in range); LEB128: read of every 1..11 (quick) / 1..19 (thorough) byte string, write of every "
                 "v in [-2^71, 2^71) (thorough 2^130) incl. well-formedness and minimality; wchar BMP non-surrogate symbolic, surrogate "
                 "pairs only as the concrete sample strings of make_wchar_pairs (chosen by an engine decision variable); floats: bit identity "
                 "of non-NaN patterns only (IEEE conversion is C code inside struct); endianness switch after load for interpreted and "
                 "compiled structures"}

I = lambda n, s: ["int", n, s]  # noqa: E731
TABLE = {
    "int8": I(1, True), "uint8": I(1, False), "int16": I(2, True), "uint16": I(2, False), "int32": I(4, True), "uint32": I(4, False),
    "int64": I(8, True), "uint64": I(8, False), "int24": I(3, True), "uint24": I(3, False), "int48": I(6, True), "uint48": I(6, False),
    "int128": I(16, True), "uint128": I(16, False),
    "float16": ["float", "e"], "float": ["float", "f"], "double": ["float", "d"], "char": ["char"], "wchar": ["wchar"],
    "signed char": I(1, True), "unsigned char": ["char"], "short": I(2, True), "signed short": I(2, True), "unsigned short": I(2, False),
    "int": I(4, True), "signed int": I(4, True), "unsigned int": I(4, False), "long": I(4, True), "signed long": I(4, True),
    "unsigned long": I(4, False), "long long": I(8, True), "signed long long": I(8, True), "unsigned long long": I(8, False),
    "BYTE": I(1, False), "CHAR": ["char"], "SHORT": I(2, True), "WORD": I(2, False), "DWORD": I(4, False), "LONG": I(4, True),
    "LONG32": I(4, True), "LONG64": I(8, True), "LONGLONG": I(8, True), "QWORD": I(8, False), "OWORD": I(16, False), "WCHAR": ["wchar"],
    "UCHAR": I(1, False), "USHORT": I(2, False), "ULONG": I(4, False), "ULONG64": I(8, False), "ULONGLONG": I(8, False),
    "INT": I(4, True), "INT8": I(1, True), "INT16": I(2, True), "INT32": I(4, True), "INT64": I(8, True), "INT128": I(16, True),
    "UINT": I(4, False), "UINT8": I(1, False), "UINT16": I(2, False), "UINT32": I(4, False), "UINT64": I(8, False), "UINT128": I(16, False),
    "__int8": I(1, True), "__int16": I(2, True), "__int32": I(4, True), "__int64": I(8, True), "__int128": I(16, True),
    "unsigned __int8": I(1, False), "unsigned __int16": I(2, False), "unsigned __int32": I(4, False), "unsigned __int64": I(8, False),
    "unsigned __int128": I(16, False), "wchar_t": ["wchar"],
    "int8_t": I(1, True), "int16_t": I(2, True), "int32_t": I(4, True), "int64_t": I(8, True), "int128_t": I(16, True),
    "uint8_t": I(1, False), "uint16_t": I(2, False), "uint32_t": I(4, False), "uint64_t": I(8, False), "uint128_t": I(16, False),
    "_BYTE": I(1, False), "_WORD": I(2, False), "_DWORD": I(4, False), "_QWORD": I(8, False), "_OWORD": I(16, False),
    "u1": I(1, False), "u2": I(2, False), "u4": I(4, False), "u8": I(8, False), "u16": I(16, False),
    "__u8": I(1, False), "__u16": I(2, False), "__u32": I(4, False), "__u64": I(8, False),
    "uchar": I(1, False), "ushort": I(2, False), "uint": I(4, False), "ulong": I(4, False),
}
BIG = 1 << 130


def make(case):
    from dissect.cstruct import cstruct
    name, endian, T = case["name"], case["endian"], case["T"]
    cs = cstruct(endian=endian)
    big = endian in (">", "!")

    def run(ctx):
        try:
            t = cs.resolve(name)
        except Exception as e:  # noqa: BLE001
            ctx.check("built-in name resolves", False, H.classify(e))
            return
        L = R.Layout(False, 8)
        w, _ = L.size_align(T)
        ctx.check("declared size", t.size == w, f"{t.size} vs {w}")
        data = ctx.bytes("b", w + 1)
        s = ctx.stream(data)
        try:
            v = t.read(s)
        except Exception as e:  # noqa: BLE001
            ctx.check("decoding w bytes succeeds", False, H.classify(e))
            return
        ctx.observe("value", v)
        ctx.check("consumes w bytes", s.tell() == w)
        ref = H.ref_parser(ctx, {"endian": endian, "align": False})
        rv, _ = ref.parse(T, data, 0)
        ctx.check("decode == reference", R.value_eq(T, v, rv))
        # inverse on the decoded value
        try:
            o = t.dumps(v)
            ctx.check("encode(decode(b)) == b", R.bytes_eq(o, data[:w]))
        except Exception as e:  # noqa: BLE001
            ctx.check("a decoded value can be encoded", False, H.classify(e))
        if T[0] == "int":
            x = ctx.int("v", -BIG, BIG)
            lo, hi = R.int_range(T[1], T[2])
            fits = R.And(x >= lo, x <= hi)
            try:
                o = t.dumps(x)
            except Exception as e:  # noqa: BLE001
                ctx.observe("outcome", "rejected")
                ctx.check("only out-of-range integers are rejected", R.Not(fits), H.classify(e))
                return
            ctx.observe("outcome", "encoded")
            ctx.observe("encoded", o)
            ctx.check("out-of-range integers are rejected, not wrapped", fits)
            exp = R.encode_int(x, T[1], T[2], big)
            ctx.check("encode == reference two's complement", R.And(len(o) == w, *[o[i] == exp[i] for i in range(min(w, len(o)))]))
    return run


def make_leb(case):
    from dissect.cstruct import cstruct
    signed, k = case["signed"], case["k"]
    cs = cstruct(endian=case["endian"])
    t = cs.ileb128 if signed else cs.uleb128

    def run(ctx):
        data = ctx.bytes("b", k)
        s = ctx.stream(data)
        try:
            v = t.read(s)
        except EOFError:
            # premature end: every byte has its continuation bit set
            ctx.observe("outcome", "eof")
            ctx.check("EOF only when no terminating byte", R.And(*[(data[i] & 0x80) != 0 for i in range(k)]))
            return
        n = s.tell()
        ctx.observe("outcome", f"len{n}")
        ctx.observe("value", v)
        ref = H.ref_parser(ctx, {"endian": "<", "align": False})
        rv, rn = ref.parse_leb(signed, data, 0, canonical=False)
        ctx.check("length = first byte without continuation bit", n == rn)
        ctx.check("value = sum of 7-bit groups, sign-extended from bit 6 of the last byte", v == rv)
    return run


def make_leb_write(case):
    from dissect.cstruct import cstruct
    signed, bits = case["signed"], case["bits"]
    cs = cstruct(endian=case["endian"])
    t = cs.ileb128 if signed else cs.uleb128

    def run(ctx):
        x = ctx.int("v", -(1 << bits), (1 << bits) - 1)
        try:
            o = t.dumps(x)
        except Exception as e:  # noqa: BLE001
            ctx.observe("outcome", "rejected")
            ctx.check("only negative values are rejected by the unsigned encoding", R.And(x < 0, not signed), H.classify(e))
            return
        n = len(o)
        ctx.observe("outcome", f"len{n}")
        ctx.observe("encoded", o)
        ctx.check("negative value never encoded as unsigned", R.Or(signed, x >= 0))
        ctx.check("continuation bits well formed",
                  R.And(*[(o[i] & 0x80) != 0 for i in range(n - 1)], (o[n - 1] & 0x80) == 0))
        ref = H.ref_parser(ctx, {"endian": "<", "align": False})
        rv, rn = ref.parse_leb(signed, o, 0, canonical=False)
        ctx.check("decode(encode(v)) == v", R.And(rn == n, rv == x))
        # minimal: the value does not fit in n-1 groups
        if n > 1:
            g = 7 * (n - 1)
            if signed:
                ctx.check("encoding is minimal", R.Or(x < -(1 << (g - 1)), x > (1 << (g - 1)) - 1))
            else:
                ctx.check("encoding is minimal", x > (1 << g) - 1)
    return run


PAIR_TEXTS = ["\U0001F600", "a\U00010000b", "\U0010FFFF\U0001F600", "\uFFFD\U0001D11E"]


LONE_UNITS = [[0x41, 0xD800, 0x42], [0xDC00, 0x41], [0x41, 0xDBFF]]


def make_wchar_pairs(case):
    """UTF-16 above the BMP (surrogate pairs) in every array form; concrete sample texts, picked by a decision variable."""
    from dissect.cstruct import cstruct
    endian, form = case["endian"], case["form"]
    enc = "utf-16-le" if endian == "<" else "utf-16-be"

    def run(ctx):
        k = ctx.choose("sample", len(PAIR_TEXTS) + len(LONE_UNITS))
        if k >= len(PAIR_TEXTS):
            # ill-formed UTF-16 (an unpaired surrogate): rejected, or - if a value comes back - written back as it was read
            us = LONE_UNITS[k - len(PAIR_TEXTS)]
            raw = b"".join(u.to_bytes(2, "little" if endian == "<" else "big") for u in us)
            cs = cstruct(endian=endian)
            cs.load(f"struct test {{ wchar x[{len(us)}]; uint8 t; }};", compiled=case["compiled"])
            try:
                v = cs.test(raw + b"\x7f")
            except UnicodeDecodeError:
                ctx.observe("outcome", "rejected")
                ctx.check("ill-formed UTF-16 is rejected or preserved", True)
                return
            try:
                out = v.dumps()
            except Exception as e:  # noqa: BLE001
                ctx.check("a parsed wide string can be written back", False, H.classify(e))
                return
            ctx.check("ill-formed UTF-16 is rejected or preserved", out == raw + b"\x7f", out.hex())
            return
        text = PAIR_TEXTS[k]
        raw = text.encode(enc)
        units = len(raw) // 2
        cs = cstruct(endian=endian)
        if form == "fixed":
            cs.load(f"struct test {{ wchar x[{units}]; uint8 t; }};", compiled=case["compiled"])
            data = raw + b"\x7f"
        elif form == "nul":
            cs.load("struct test { wchar x[]; uint8 t; };", compiled=case["compiled"])
            data = raw + b"\x00\x00\x7f"
        elif form == "expr":
            cs.load("struct test { uint8 n; wchar x[n]; uint8 t; };", compiled=case["compiled"])
            data = bytes([units]) + raw + b"\x7f"
        else:
            t = cs.wchar[None] if form == "bare-nul" else cs.wchar[units]
            data = raw + (b"\x00\x00" if form == "bare-nul" else b"")
            try:
                v = t(data)
            except Exception as e:  # noqa: BLE001
                ctx.check("valid UTF-16 with surrogate pairs decodes", False, H.classify(e))
                return
            ctx.check("decoded text == UTF-16 decoding of the input", v == text, f"{v!r}")
            ctx.check("encoding is the inverse", t.dumps(v) == data)
            return
        s = ctx.stream(data + b"\xee")
        try:
            v = cs.test.read(s)
        except Exception as e:  # noqa: BLE001
            ctx.check("valid UTF-16 with surrogate pairs decodes", False, H.classify(e))
            return
        ctx.check("decoded text == UTF-16 decoding of the input", v.x == text, f"{v.x!r}")
        ctx.check("the member after the string is read from the right place", v.t == 0x7f and s.tell() == len(data))
        ctx.check("encoding is the inverse", v.dumps() == data)
    return run


SWITCH_DEF = """
enum E : uint16 { A = 1, B = 0x100 };
struct inner { uint16 x; int24 y; };
struct test {
    uint16 a; uint32 b; int24 c; wchar w; uint16 *p; uint16 f1 : 4; uint16 f2 : 12; uint16 arr[2]; E e; inner s; int64 q; float fl; wchar ws[2];
};
"""


def make_switch(case):
    from dissect.cstruct import cstruct
    compiled, first, second = case["compiled"], case["first"], case["second"]

    def run(ctx):
        cs = cstruct(endian=first, pointer="uint32")
        cs.load(SWITCH_DEF, compiled=compiled)
        fresh = cstruct(endian=second, pointer="uint32")
        fresh.load(SWITCH_DEF, compiled=compiled)
        n = len(cs.test)
        warm = ctx.bytes("w", n)
        data = ctx.bytes("b", n)
        v0 = cs.test.read(ctx.stream(warm))
        v0.dumps()
        cs.endian = second
        v1 = cs.test.read(ctx.stream(data))
        v2 = fresh.test.read(ctx.stream(data))
        ctx.observe("a", v1.a)
        ctx.observe("dumped", v1.dumps())
        T = ["struct", "test", [["a", ["int", 2, False], None], ["b", ["int", 4, False], None], ["c", ["int", 3, True], None],
                                ["w", ["wchar"], None], ["p", ["ptr", ["int", 2, False]], None], ["f1", ["int", 2, False], 4],
                                ["f2", ["int", 2, False], 12], ["arr", ["arr", ["int", 2, False], 2], None],
                                ["e", ["enum", "E", ["int", 2, False], {}, False], None],
                                ["s", ["struct", "inner", [["x", ["int", 2, False], None], ["y", ["int", 3, True], None]], False], None],
                                ["q", ["int", 8, True], None], ["fl", ["float", "f"], None], ["ws", ["arr", ["wchar"], 2], None]], False]
        ctx.check("parse after endian switch == parse by a fresh instance of that endianness", R.lib_eq(T, v1, v2))
        ctx.check("dump after endian switch == dump by a fresh instance", R.bytes_eq(v1.dumps(), v2.dumps()))
        ctx.check("dump after endian switch reproduces the input", R.bytes_eq(v1.dumps(), data))
        for name in ("uint16", "int24", "uint32", "wchar"):
            a = getattr(cs, name).read(ctx.stream(data))
            b = getattr(fresh, name).read(ctx.stream(data))
            TT = TABLE[name]
            ctx.check(f"scalar {name} follows the switch", R.lib_eq(TT, a, b))
    return run


def cases(tier, seed):
    for name, T in TABLE.items():
        for endian in "<>!":
            yield {"label": f"{name} {endian}", "name": name, "endian": endian, "T": T}
    kmax = 11 if tier == "quick" else 19
    for signed in (False, True):
        for k in range(1, kmax + 1):
            yield {"label": f"leb-read s={signed} k={k}", "signed": signed, "k": k, "endian": "<>"[k % 2], "make": "make_leb"}
        yield {"label": f"leb-write s={signed}", "signed": signed, "bits": 71 if tier == "quick" else 130, "endian": "<", "make": "make_leb_write"}
    for endian in "<>":
        for form in ("fixed", "nul", "expr", "bare-nul", "bare-fixed"):
            for compiled in ((False, True) if not form.startswith("bare") else (False,)):
                yield {"label": f"wchar-pairs {form} {endian}", "endian": endian, "form": form, "compiled": compiled, "make": "make_wchar_pairs"}
    for compiled in (False, True):
        for first, second in (("<", ">"), (">", "<"), ("<", "!")):
            yield {"label": f"endian-switch {first}->{second} compiled={compiled}", "compiled": compiled, "first": first, "second": second,
                   "make": "make_switch"}
