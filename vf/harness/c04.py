"""C04 — structure layout follows C rules; len == sizeof == bytes read == bytes written."""
import itertools

from vf import refmodel as R
from vf import defgen as G
from vf.harness import common as H
from vf import families

PROPERTY = "C04"
BOUNDS = {"all": "(1) the real _calculate_size_and_offsets of structures and unions on k <= 3 (quick) / 4 (thorough) members with SYMBOLIC "
                 "sizes in [0, 4096] (or dynamic, engine-chosen) and alignments enumerated from {1,2,4,8,16} (fully symbolic alignments "
                 "stall the solver); (2) the built-in type table and, for every fixed-size definition of the C02 family, agreement of "
                 "len, sizeof(), offsets (vs the reference layout, itself cross-checked against ctypes), bytes consumed on every path of "
                 "a symbolic parse and bytes produced by dumps"}
ALIGNS = (1, 2, 4, 8, 16)


def make_symbolic(case):
    """Real layout computation on members whose sizes are solver variables."""
    from dissect.cstruct import cstruct
    from dissect.cstruct.types import BaseType, Field
    aligns, align, union = case["aligns"], case["align"], case["union"]
    k = len(aligns)

    def run(ctx):
        cs = cstruct()
        sizes, fields = [], []
        for i, a in enumerate(aligns):
            dyn = ctx.choose(f"dyn{i}", 2) == 1
            sz = None if dyn else ctx.int(f"s{i}", 0, 4096)
            sizes.append(sz)
            t = cs._make_type(f"T{i}", (BaseType,), sz, alignment=a)
            fields.append(Field(f"f{i}", t))
        holder = (cs._make_union if union else cs._make_struct)("X", [], align=align)
        size, alignment = holder._calculate_size_and_offsets(fields, align)
        ctx.observe("size", size)
        ctx.observe("alignment", alignment)
        amax = max(aligns)
        ctx.check("alignment = largest member alignment", alignment == amax)
        if union:
            if any(s is None for s in sizes):
                ctx.check("union with a dynamic member is dynamic", size is None)
                return
            ctx.check("union size known", size is not None)
            if size is None:
                return
            ctx.check("union size >= every member", R.And(*[size >= s for s in sizes]))
            if align:
                ctx.check("union size multiple of its alignment", (size & (amax - 1)) == 0)
                ctx.check("union size is the least such multiple", R.Or(*[size - s < amax for s in sizes]))
            else:
                ctx.check("union size = largest member", R.Or(*[size == s for s in sizes]))
            return
        end = 0
        for i, f in enumerate(fields):
            if end is None:
                ctx.check(f"f{i}: offset unknown after a dynamic member", f.offset is None)
                continue
            ctx.check(f"f{i}: offset known", f.offset is not None)
            if f.offset is None:
                return
            ctx.observe(f"off{i}", f.offset)
            if align:
                ctx.check(f"f{i}: starts at the next multiple of its alignment",
                          R.And(f.offset >= end, f.offset - end < aligns[i], (f.offset & (aligns[i] - 1)) == 0))
            else:
                ctx.check(f"f{i}: packed back to back", f.offset == end)
            end = None if sizes[i] is None else f.offset + sizes[i]
        if end is None:
            ctx.check("structure with a dynamic member is dynamic", size is None)
        else:
            ctx.check("size known", size is not None)
            if size is None:
                return
            if align:
                ctx.check("size = least multiple of the alignment >= end of last member",
                          R.And(size >= end, size - end < amax, (size & (amax - 1)) == 0))
            else:
                ctx.check("size = end of last member", size == end)
    return run


def _ctypes_type(T, packed):
    import ctypes as C
    k = T[0]
    if k == "int":
        m = {(1, True): C.c_int8, (1, False): C.c_uint8, (2, True): C.c_int16, (2, False): C.c_uint16, (4, True): C.c_int32,
             (4, False): C.c_uint32, (8, True): C.c_int64, (8, False): C.c_uint64}
        return m.get((T[1], T[2]))
    if k == "char":
        return C.c_char
    if k == "float":
        return {"f": C.c_float, "d": C.c_double}.get(T[1])
    if k == "enum":
        return _ctypes_type(T[2], packed)
    if k == "ptr":
        return C.c_void_p
    if k == "arr":
        e = _ctypes_type(T[1], packed)
        if e is None or not isinstance(T[2], int):
            return None
        return e * T[2]
    if k in ("struct", "union"):
        fs = []
        for fname, FT, bits in T[2]:
            if bits or fname is None:
                return None
            ct = _ctypes_type(FT, packed)
            if ct is None:
                return None
            fs.append((fname, ct))
        ns = {"_fields_": fs}
        if packed:
            ns = {"_pack_": 1, "_fields_": fs}
        return type(T[1] or "anon", (C.Structure if k == "struct" else C.Union,), ns)
    return None


def ctypes_crosscheck(T, cfg):
    """The reference layout itself is validated against the platform ABI where ctypes can express T."""
    import ctypes as C
    if cfg.get("pointer", "uint64") != "uint64" and H.has_kind(T, ("ptr",)):
        return None
    ct = _ctypes_type(T, not cfg["align"])
    if ct is None:
        return None
    L = H.layout(cfg)
    offs, size, a = L.struct_layout(T)
    got = (C.sizeof(ct), [getattr(ct, f[0]).offset for f in T[2]])
    exp = (size, [o for o, _ in offs])
    if got != exp:
        from vf.rt import HarnessError
        raise HarnessError(f"reference layout {exp} disagrees with ctypes {got} for {R.render(T)}")
    return True


def make(case):
    T, cfg = case["T"], case["cfg"]
    L = H.layout(cfg)
    try:
        size, alignment = L.size_align(T)
    except R.RefReject:
        return None
    try:
        cs, cls = H.load(T, cfg)
        err = None
    except Exception as e:  # noqa: BLE001
        cs = cls = None
        err = H.classify(e)
    checked = ctypes_crosscheck(T, cfg)
    n = (size + 2) if size is not None else case["nbytes"]

    def check_layout(ctx, T, cls, path):
        offs, rsize, ra = L.struct_layout(T) if T[0] == "struct" else (None, *L.size_align(T))
        ctx.check(f"{path}: size", cls.size == rsize, f"{cls.size} vs {rsize}")
        ctx.check(f"{path}: alignment", (cls.alignment or 1) == ra, f"{cls.alignment} vs {ra}")
        ctx.check(f"{path}: dynamic flag", cls.dynamic == (rsize is None))
        for i, (f, (fname, FT, bits)) in enumerate(zip(cls.__fields__, T[2])):
            if T[0] == "struct":
                off, used = offs[i]
                if used in (None, 0):
                    ctx.check(f"{path}.{fname}: offset", f.offset == off, f"{f.offset} vs {off}")
            ft = f.type
            FT2 = FT
            while FT2[0] == "arr":
                FT2, ft = FT2[1], ft.type
            if FT2[0] in ("struct", "union") and not bits:
                check_layout(ctx, FT2, ft, f"{path}.{fname}")
            fs, fa = L.size_align(FT)
            ctx.check(f"{path}.{fname}: member size/alignment", (f.type.size, f.alignment) == (fs, fa),
                      f"{(f.type.size, f.alignment)} vs {(fs, fa)}")

    def run(ctx):
        ctx.check("definition loads", err is None, err)
        if err:
            return
        if checked:
            ctx.note("reference layout cross-checked against ctypes")
        check_layout(ctx, T, cls, "test")
        if size is None:
            return
        from dissect.cstruct.expression import Expression
        ctx.check("len(T) == size", len(cls) == size)
        try:
            ctx.check("sizeof(T) in expressions == size", Expression(cs, "sizeof(test) + 0").evaluate() == size)
        except Exception as e:  # noqa: BLE001
            ctx.check("sizeof(T) evaluates", False, H.classify(e))
        data = ctx.bytes("b", n)
        s = ctx.stream(data)
        try:
            v = cls.read(s)
        except Exception as e:  # noqa: BLE001
            ctx.check("a fixed-size type parses from size bytes", False, H.classify(e))
            return
        ctx.observe("consumed", s.tell())
        ctx.check("bytes consumed == size", s.tell() == size, f"{H.show(s.tell())} vs {size}")
        try:
            o = v.dumps()
        except Exception as e:  # noqa: BLE001
            ctx.check("a parsed value can be dumped", False, H.classify(e))
            return
        ctx.check("bytes produced == size", len(o) == size, f"{len(o)} vs {size}")
    return run


def make_table(case):
    from dissect.cstruct import cstruct
    from vf.harness.c05 import TABLE

    def run(ctx):
        cs = cstruct(pointer=case["pointer"])
        L = R.Layout(True, G.PTR_BYTES[case["pointer"]])
        for name, T in TABLE.items():
            t = cs.resolve(name)
            s, a = L.size_align(T)
            ctx.check(f"{name}: size and natural alignment", (t.size, t.alignment or 1) == (s, a), f"{(t.size, t.alignment)} vs {(s, a)}")
        for name in ("uleb128", "ileb128"):
            t = cs.resolve(name)
            ctx.check(f"{name}: dynamic size, byte aligned", (t.size, t.alignment or 1, t.dynamic) == (None, 1, True))
        p = cs._make_pointer(cs.uint8)
        pb = G.PTR_BYTES[case["pointer"]]
        ctx.check("pointer: size and alignment of the configured pointer type", (p.size, p.alignment) == (pb, R.INT_ALIGN[pb]))
        arr = cs._make_array(cs.uint32, 3)
        ctx.check("array: n * element size, element alignment", (arr.size, arr.alignment) == (12, 4))
        arr = cs._make_array(cs.int24, 2)
        ctx.check("array of int24: 6 bytes, alignment 4", (arr.size, arr.alignment) == (6, 4))
    return run


def cases(tier, seed):
    for ptr in G.PTR_BYTES:
        yield {"label": f"type-table ptr={ptr}", "pointer": ptr, "make": "make_table"}
    def symbolic(k):
        for aligns in itertools.product(ALIGNS, repeat=k):
            for align in (False, True):
                yield {"label": f"symbolic-sizes struct a={aligns} align={align}", "aligns": list(aligns), "align": align, "union": False,
                       "make": "make_symbolic", "width": 64}
                if k <= 3:
                    yield {"label": f"symbolic-sizes union a={aligns} align={align}", "aligns": list(aligns), "align": align, "union": True,
                           "make": "make_symbolic", "width": 64}
    for k in (1, 2, 3):
        yield from symbolic(k)
    seen = set()
    for c in families.struct_cases(tier, seed, both_readers=(tier != "quick")):
        key = (c["label"], c["cfg"]["align"], c["cfg"]["compiled"], c["cfg"].get("pointer"))
        if key in seen:
            continue
        seen.add(key)
        yield c
    if tier != "quick":
        # four symbolic members: ~1 s of solver time per case, so they go last (the budget may cut the tail of this family)
        yield from symbolic(4)
