"""C17 — structure values: field-wise equality, consistent hash/bool, local assignment."""
import itertools

from vf import refmodel as R
from vf import defgen as G
from vf import rt
from vf.harness import common as H
from vf.harness.c11 import sym_value, _zero_value

PROPERTY = "C17"
BOUNDS = {"all": "structures with 0..8 fields (types cycling over uint8,int16,uint32,char,uint16[2],enum,nested struct,int24,uint64), three "
                 "classes per definition set (same field count; identical, disjoint and permuted name sets; one cstruct so the cached "
                 "code templates are shared), anonymous members, bit-fields; ALL field values of both instances symbolic over the whole "
                 "range of their types; every single-field assignment (which field = engine decision) with a symbolic new value; {<,>} x "
                 "{packed,aligned}"}

KINDS = [G.U8, G.I16, G.U32, G.CHAR, G.arr(G.U16, 2), G.E16, G.INNER, G.I24, G.U64]
NAMES_A = ["a", "b", "c", "d", "e", "f", "g", "h"]
NAMES_B = ["p", "q", "r", "s", "t", "u", "v", "w"]


def defs(k, rot):
    kinds = [KINDS[(i + rot) % len(KINDS)] for i in range(k)]
    A = ["struct", "A", [[NAMES_A[i], kinds[i], None] for i in range(k)], False]
    B = ["struct", "B", [[NAMES_B[i], kinds[i], None] for i in range(k)], False]
    C = ["struct", "C", [[NAMES_A[(i + 1) % k] if k else "", kinds[i], None] for i in range(k)], False]   # same names, shifted
    return A, B, C


ANON_A = ["struct", "A", [["a", G.U8, None], [None, ["struct", "", [["ax", G.U8, None], ["ay", G.U16, None]], True], None], ["d", G.U32, None]], False]
ANON_B = ["struct", "B", [["p", G.U8, None], [None, ["struct", "", [["px", G.U8, None], ["py", G.U16, None]], True], None], ["s", G.U32, None]], False]
ANON_C = ["struct", "C", [["d", G.U8, None], [None, ["struct", "", [["ay", G.U8, None], ["ax", G.U16, None]], True], None], ["a", G.U32, None]], False]
ANON_U = ["struct", "A", [["a", G.U8, None], [None, ["union", "", [["ux", G.U16, None], ["uy", G.arr(G.U8, 2), None]], True], None]], False]


def load_all(Ts, cfg):
    from dissect.cstruct import cstruct
    cs = cstruct(endian=cfg["endian"])
    named = []
    for T in Ts:
        R.collect_named(T, named)
    text = H.PREAMBLE
    for N in named:
        text += (R.render_enum(N) if N[0] == "enum" else "%s %s {\n%s\n};" % (N[0], N[1], R.render_fields(N[2]))) + "\n"
    cs.load(text, align=cfg["align"], compiled=False)
    return cs


def build(ctx, T, cls, L, tag):
    kw, ref = {}, {}
    for f, (fname, FT, bits) in zip(cls.__fields__, T[2]):
        if fname is None:
            # anonymous member: built explicitly (its fields are reached through the outer instance afterwards)
            ikw, iref = build(ctx, ["struct", "", FT[2] if FT[0] == "struct" else FT[2][:1], True], f.type, L, tag + "_anon")
            kw[f._name] = f.type(**ikw)
            ref.update(iref)
            ref["<anon>"] = (FT, f._name)
            continue
        if bits:
            v = ctx.int(f"{tag}_{fname}", 0, (1 << bits) - 1)
            kw[fname], ref[fname] = (f.type(v) if FT[0] == "enum" else v), v
        elif FT[0] == "char":
            b = ctx.bytes(f"{tag}_{fname}", 1)
            kw[fname], ref[fname] = b, b
        else:
            kw[fname], ref[fname] = sym_value(ctx, FT, L, f"{tag}_{fname}", f.type)
    return kw, ref


def ref_eq(T, x, y):
    """Reference values equal?"""
    k = T[0]
    if k == "struct" and any(f[0] is None for f in T[2]):
        cs = []
        for fn, FT, _ in T[2]:
            if fn is None:
                inner = FT[2] if FT[0] == "struct" else FT[2][:1]
                cs += [ref_eq(IT, x[n], y[n]) for n, IT, _ in inner]
            else:
                cs.append(ref_eq(FT, x[fn], y[fn]))
        return R.And(*cs)
    if k in ("int", "enum", "ptr", "leb"):
        return x == y
    if k == "char":
        return R.bytes_eq(x, y)
    if k == "arr":
        if T[1][0] == "char":
            return R.bytes_eq(x, y)
        return R.And(*[ref_eq(T[1], a, b) for a, b in zip(x, y)])
    if k == "struct":
        return R.And(*[ref_eq(FT, x[fn], y[fn]) for fn, FT, _ in T[2]])
    raise ValueError(T)


def ref_truthy(T, x):
    k = T[0]
    if k in ("int", "enum", "ptr"):
        return x != 0
    if k == "char":
        return True          # a one-byte bytes object is truthy whatever its content
    if k == "arr":
        return L_static(T) > 0
    if k == "struct":
        cs = []
        for fn, FT, _ in T[2]:
            if fn is None:
                inner = FT[2] if FT[0] == "struct" else FT[2][:1]
                cs += [ref_truthy(IT, x[n]) for n, IT, _ in inner]
            else:
                cs.append(ref_truthy(FT, x[fn]))
        return R.Or(*cs) if cs else False
    raise ValueError(T)


def L_static(T):
    return T[2]


def make(case):
    cfg = case["cfg"]
    A, B, C = case["Ts"]
    cs = load_all([A, B, C], cfg)
    cA, cB, cC = cs.A, cs.B, cs.C
    L = H.layout(cfg)
    k = len(A[2])

    part = case["part"]

    def run(ctx):
        kwa, ra = build(ctx, A, cA, L, "x")
        names = [f[0] for f in A[2]]
        if part == "eq":
            kwb, rb = build(ctx, A, cA, L, "y")
            a, b = cA(**kwa), cA(**kwb)
            other = cB(**{nb: kwa[na] for na, nb in zip(names, [f[0] for f in B[2]])})
            shifted = cC(**{f[0]: kwa[g[0]] for f, g in zip(C[2], A[2])}) if k else cC()
            all_eq = ref_eq(A, ra, rb)
            eq = (a == b)
            ctx.observe("eq", eq)
            ctx.check("a == b exactly when all fields are equal", all_eq if eq else R.Not(all_eq))
            ne = (a != b)
            ctx.check("a != b exactly when some field differs", R.Not(all_eq) if ne else all_eq)
            ctx.check("instances of another structure type with equal fields are not equal", (a == other) is False and (a == shifted) is False)
            try:
                ha, hb = hash(a), hash(b)
                ctx.check("equal instances hash equally", R.Implies(all_eq, ha == hb))
            except TypeError:
                ctx.observe("hash", "unhashable")
            return
        a = cA(**kwa)
        if part == "bool":
            truthy = ref_truthy(A, ra)
            t = bool(a)
            ctx.observe("bool", t)
            ctx.check("falsy exactly when all fields are falsy", truthy if t else R.Not(truthy))
            return
        # construction: positional prefix + keywords == default instance + assignments
        m = ctx.choose("npos", k + 1) if k else 0
        skip = (2 * m + 1) % (k + 1) if k else 0      # one field left unspecified (index k = none)
        pos = [kwa[n] for n in names[:m]]
        kw = {n: kwa[n] for i, n in enumerate(names[m:], m) if i != skip}
        if skip < m:
            pos = pos[:skip]
            kw = {n: kwa[n] for i, n in enumerate(names) if i > skip}
        if len(pos) == 1 and A[2][0][1][0] in ("char", "arr", "wchar"):
            return  # T(x) with a single bytes-like/stream argument is the documented parsing form, not construction
        try:
            c = cA(*pos, **kw) if (pos or kw) else cA()
        except Exception as e:  # noqa: BLE001
            ctx.check("constructing from positional and keyword values works", False, H.classify(e) + f" npos={len(pos)}")
            return
        d = cA()
        given = set(names[:len(pos)]) | set(kw)
        for n in names:
            if n in given:
                setattr(d, n, kwa[n])
        zero = _zero_value(A, L)
        expect = {n: (ra[n] if n in given else zero[n]) for n in names}
        ctx.observe("given", sorted(given))
        ctx.check("T(*pos, **kw) == default instance + assignments", R.lib_eq(A, c, d))
        ctx.check("unspecified fields take the type's zero value", R.value_eq(A, c, expect))
    return run


def make_anon(case):
    """Equality, hash and truthiness cover the fields of anonymous members."""
    cfg = case["cfg"]
    cs = load_all([ANON_A, ANON_B, ANON_C], cfg)
    cA, cB = cs.A, cs.B
    L = H.layout(cfg)
    part = case["part"]

    def run(ctx):
        kwa, ra = build(ctx, ANON_A, cA, L, "x")
        a = cA(**kwa)
        if part == "eq":
            kwb, rb = build(ctx, ANON_A, cA, L, "y")
            b = cA(**kwb)
            all_eq = ref_eq(ANON_A, ra, rb)
            eq = (a == b)
            ctx.observe("eq", eq)
            ctx.check("a == b exactly when all fields (those of anonymous members included) are equal", all_eq if eq else R.Not(all_eq))
            ctx.check("a != b exactly when some field differs", R.Not(all_eq) if (a != b) else all_eq)
            try:
                ctx.check("equal instances hash equally", R.Implies(all_eq, hash(a) == hash(b)))
            except TypeError:
                ctx.observe("hash", "unhashable")
            ctx.check("fields of the anonymous member are reachable on the instance", R.And(a.ax == ra["ax"], a.ay == ra["ay"]))
        else:
            truthy = ref_truthy(ANON_A, ra)
            t = bool(a)
            ctx.observe("bool", t)
            ctx.check("falsy exactly when all fields (those of anonymous members included) are falsy", truthy if t else R.Not(truthy))
    return run


def make_union_eq(case):
    """Unions are equal exactly when their fields are: bytes that belong to no member take no part."""
    cfg = case["cfg"]
    T = ["union", "test", [["a", G.U32, None], ["c", G.arr(G.CHAR, 5), None]], False]      # aligned: 3 bytes of tail padding
    Tw = ["struct", "wrap", [["h", G.U8, None], ["u", ["union", "pu", [["s", G.INNER2, None], ["k", G.U16, None]], False], None]], False]
    cs, cls = H.load(T, dict(cfg, compiled=False))
    cs2, wcls = H.load(Tw, dict(cfg, compiled=False))
    L = H.layout(cfg)
    size = L.size_align(T)[0]
    wsize = L.size_align(Tw)[0]

    def run(ctx):
        x, y = ctx.bytes("x", size), ctx.bytes("y", size)
        u1, u2 = cls.read(ctx.stream(x)), cls.read(ctx.stream(y))
        fields_eq = R.And(*[x[i] == y[i] for i in range(5)])
        eq = (u1 == u2)
        ctx.observe("eq", eq)
        ctx.check("unions are equal exactly when all their fields are equal (uncovered bytes do not count)", fields_eq if eq else R.Not(fields_eq))
        ctx.check("a union equals itself parsed again", (cls.read(ctx.stream(x)) == u1) is True)
        ctx.check("a union never equals an instance of another union type", (u1 == wcls.__fields__[1].type.read(ctx.stream(x + x))) is False)
        p, q = ctx.bytes("p", wsize), ctx.bytes("q", wsize)
        w1, w2 = wcls.read(ctx.stream(p)), wcls.read(ctx.stream(q))
        rp, rq = H.ref_parser(ctx, cfg), H.ref_parser(ctx, cfg)
        rv1, _ = rp.parse(Tw, p, 0)
        rv2, _ = rq.parse(Tw, q, 0)
        same = R.And(rv1["h"] == rv2["h"], rv1["u"]["s"]["p"] == rv2["u"]["s"]["p"], rv1["u"]["s"]["q"] == rv2["u"]["s"]["q"])
        weq = (w1 == w2)
        ctx.check("structures holding a union: equal exactly when all fields are equal", same if weq else R.Not(same))
    return run


def make_assign(case):
    """Assigning one field changes exactly that field's bytes in the dump."""
    T, cfg = case["T"], case["cfg"]
    cs, cls = H.load(T, dict(cfg, compiled=False))
    L = H.layout(cfg)
    size, _ = L.size_align(T)
    enc = R.RefEncoder(cfg["endian"], cfg["align"], 8, H.CONSTS)
    # assignable leaves: (path of attribute names, type, byte offset, nbytes, bits info)
    targets = []

    def walk(T, base, path, libcls):
        offs, _, _ = L.struct_layout(T)
        for (fname, FT, bits), (off, used), f in zip(T[2], offs, libcls.__fields__):
            if bits:
                targets.append((path + [fname], FT, base + off, L.size_align(FT)[0], (bits, used), f.type))
            elif fname is None:
                walk(FT, base + off, path, f.type)
            elif FT[0] == "struct":
                walk(FT, base + off, path + [fname], f.type)
                targets.append((path + [fname], FT, base + off, L.size_align(FT)[0], None, f.type))
            elif FT[0] != "void":
                targets.append((path + [fname], FT, base + off, L.size_align(FT)[0], None, f.type))
    walk(T, 0, [], cls)

    fresh = case.get("fresh", False)

    def run(ctx):
        if fresh:
            # default-constructed instance of a fresh universe (defaults are shared between instances, C14's subject)
            cls1 = H.load(T, dict(cfg, compiled=False))[1]
            v = cls1()
            tg = []

            def walk1(T1, base, path, libcls):
                offs, _, _ = L.struct_layout(T1)
                for (fname, FT, bits), (off, used), f in zip(T1[2], offs, libcls.__fields__):
                    if FT[0] == "struct":
                        walk1(FT, base + off, path + [fname], f.type)
                    elif not bits and FT[0] != "void":
                        tg.append((path + [fname], FT, base + off, L.size_align(FT)[0], None, f.type))
            walk1(T, 0, [], cls1)
            d0 = v.dumps()
            j = ctx.choose("field", len(tg))
            path, FT, off, nb, bitinfo, libt = tg[j]
            ctx.observe("field", ".".join(path))
            lv, y = sym_value(ctx, FT, L, "y", libt)
            obj = v
            for name in path[:-1]:
                obj = getattr(obj, name)
            setattr(obj, path[-1], lv)
            d1 = v.dumps()
            eb, emask = enc.encode(FT, y)
            ctx.check("default instance: the field's bytes carry the new value",
                      R.And(*[(d1[off + i] & emask[i]) == (eb[i] & emask[i]) for i in range(nb)]))
            outside = [i for i in range(size) if not off <= i < off + nb]
            ctx.check("default instance: every byte outside the assigned field is unchanged (members of the same type are distinct objects)",
                      R.And(*[d1[i] == d0[i] for i in outside]) if outside else True)
            # in-place element assignment of an array member
            arrs = [t for t in tg if t[1][0] == "arr" and t[1][1][0] == "int"]
            if arrs:
                k2 = ctx.choose("arr", len(arrs))
                apath, AT, aoff, anb, _, alib = arrs[k2]
                es = L.size_align(AT[1])[0]
                lo, hi = R.int_range(es, AT[1][2])
                z = ctx.int("z", lo, hi)
                before = v.dumps()
                o2 = v
                for name in apath:
                    o2 = getattr(o2, name)
                o2[0] = z
                after = v.dumps()
                outside2 = [i for i in range(size) if not aoff <= i < aoff + es]
                ctx.check("default instance: in-place element assignment touches that element only",
                          R.And(*[after[i] == before[i] for i in outside2]))
            return
        data = ctx.bytes("b", size)
        v = cls.read(ctx.stream(data))
        d0 = v.dumps()
        if case.get("strchar"):
            # a str assigned to a char array is written as latin-1, one byte per character
            cands = [t for t in targets if t[1][0] == "arr" and t[1][1][0] == "char" and not t[4]]
            path, FT, off, nb, _, libt = cands[0]
            raw = ctx.bytes("s", nb)
            if ctx.symbolic:
                sval = rt.SStr([rt.z3.ZeroExt(8, rt.b8(i)) if type(i) is not int else i for i in raw.items])
            else:
                sval = bytes(raw).decode("latin-1")
            obj = v
            for name in path[:-1]:
                obj = getattr(obj, name)
            try:
                setattr(obj, path[-1], sval)
                d1 = v.dumps()
            except Exception as e:  # noqa: BLE001
                ctx.check("assigning a str to a char array and dumping works", False, H.classify(e))
                return
            ctx.check("str assigned to char[N]: dump length unchanged", len(d1) == len(d0), f"{len(d1)} vs {len(d0)}")
            if len(d1) == len(d0):
                ctx.check("str assigned to char[N]: one latin-1 byte per character", R.And(*[d1[off + i] == raw[i] for i in range(nb)]))
                ctx.check("str assigned to char[N]: other bytes unchanged", R.And(*[d1[i] == d0[i] for i in range(size) if not off <= i < off + nb]))
            return
        j = ctx.choose("field", len(targets))
        path, FT, off, nb, bitinfo, libt = targets[j]
        ctx.observe("field", ".".join(path))
        if bitinfo:
            bits, used = bitinfo
            y = ctx.int("y", 0, (1 << bits) - 1)
            lv = libt(y) if FT[0] == "enum" else y
        elif FT[0] == "char":
            y = ctx.bytes("y", 1)
            lv = y
        else:
            lv, y = sym_value(ctx, FT, L, "y", libt)
        obj = v
        for name in path[:-1]:
            obj = getattr(obj, name)
        try:
            setattr(obj, path[-1], lv)
            d1 = v.dumps()
        except Exception as e:  # noqa: BLE001
            ctx.check("assigning a field and dumping works", False, H.classify(e))
            return
        ctx.observe("dump", d1)
        ctx.check("dump length unchanged", len(d1) == len(d0) == size)
        if bitinfo:
            bits, used = bitinfo
            nbits = nb * 8
            big = cfg["endian"] == ">"
            shift = (nbits - used - bits) if big else used
            unit0 = R.be_int(d0, off, nb) if big else R.le_int(d0, off, nb)
            unit1 = R.be_int(d1, off, nb) if big else R.le_int(d1, off, nb)
            fm = ((1 << bits) - 1) << shift
            ctx.check("bit-field: its bits carry the new value", ((unit1 >> shift) & ((1 << bits) - 1)) == y)
            ctx.check("bit-field: the other bits of the unit are unchanged", (unit1 & ~fm & ((1 << nbits) - 1)) == (unit0 & ~fm & ((1 << nbits) - 1)))
            inside = range(off, off + nb)
        else:
            eb, emask = enc.encode(FT, y)
            ctx.check("the field's bytes carry the reference encoding of the new value",
                      R.And(*[(d1[off + i] & emask[i]) == (eb[i] & emask[i]) for i in range(nb)]) if nb else True)
            inside = range(off, off + nb)
        outside = [i for i in range(size) if i not in inside]
        ctx.check("every byte outside the field is unchanged", R.And(*[d1[i] == d0[i] for i in outside]) if outside else True)
    return run


ASSIGN_DEFS = [
    ("mixed", [["a", G.U8, None], ["b", G.U32, None], ["c", G.I24, None], ["d", G.arr(G.CHAR, 3), None], ["e", G.INNER, None],
               ["f", G.arr(G.U16, 2), None], ["g", G.E16, None]]),
    ("bits", [["a", G.U16, 3], ["b", G.U16, 9], ["c", G.U16, 4], ["d", G.U8, None], ["e", G.U32, 8], ["f", G.U32, 24]]),
    ("anon", [["h", G.U8, None], [None, G.ANON, None], ["t", G.U32, None]]),
    ("nested", [["a", G.U8, None], ["o", ["struct", "outer", [["i", G.INNER, None], ["z", G.U16, None]], False], None], ["t", G.U16, None]]),
    ("wide", [["a", G.U128, None], ["b", G.I48, None], ["c", G.U8, None], ["w", G.arr(G.WCHAR, 2), None]]),
    ("signedbits", [["a", G.I8, 4], ["b", G.I8, 4], ["c", G.I16, None]]),
]


def cases(tier, seed):
    cfgs = [{"endian": e, "align": a, "pointer": "uint64"} for e in "<>" for a in (False, True)]
    kmax = 8
    for k in range(0, kmax + 1):
        for rot in ((0, 3) if tier == "quick" else range(0, 9, 2)):
            A, B, C = defs(k, rot)
            for cfg in cfgs:
                if tier == "quick" and cfg["endian"] == ">" and k > 4:
                    continue
                for part in ("eq", "bool", "ctor"):
                    yield {"label": f"{part} k={k} rot={rot}", "Ts": [A, B, C], "cfg": cfg, "part": part}
    for label, fields in ASSIGN_DEFS:
        for cfg in cfgs:
            yield {"label": f"assign {label}", "T": ["struct", "test", fields, False], "cfg": cfg, "make": "make_assign"}
    twins = [["start", G.INNER, None], ["end", G.INNER, None], ["left", G.arr(G.U16, 2), None], ["right", G.arr(G.U16, 2), None],
             ["a", G.U8, None], ["b", G.U8, None]]
    for cfg in cfgs:
        yield {"label": "assign default-constructed twins", "T": ["struct", "test", twins, False], "cfg": cfg, "make": "make_assign", "fresh": True}
        yield {"label": "assign str to char array", "T": ["struct", "test", ASSIGN_DEFS[0][1], False], "cfg": cfg, "make": "make_assign", "strchar": True}
        for part in ("eq", "bool"):
            yield {"label": f"anonymous member {part}", "cfg": cfg, "part": part, "make": "make_anon"}
        yield {"label": "union equality", "cfg": cfg, "make": "make_union_eq"}
