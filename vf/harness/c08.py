"""C08 — truncated or failing input never fabricates data."""
from vf import refmodel as R
from vf import defgen as G
from vf.harness import common as H
from vf import families

PROPERTY = "C08"
# random 4..6-member definitions with several forking members can explode: cap them so that the budget reaches the other families
SETTINGS_THOROUGH = {"case_budget": 45.0, "max_paths": 20000}
BOUNDS = {"all": "definitions of the C02 family without to-end-of-stream arrays (exempt by the statement); full input = extent+slack "
                 "symbolic bytes (<= 12 quick / 32 thorough); EVERY cut point k of the input inside one path condition together with the "
                 "complete parse; fault injection: the j-th read (j engine-chosen, j < 6) returns 1 byte less than asked, or raises OSError; "
                 "no-residue: re-parse after all failures vs before and vs a fresh cstruct"}


def has_eof(T):
    if T[0] == "arr":
        return T[2] == "EOF" or has_eof(T[1])
    if T[0] in ("struct", "union"):
        return any(has_eof(f[1]) for f in T[2])
    return False


def _parse(cls, stream):
    try:
        v = cls.read(stream)
        return ("value", v, stream.tell())
    except Exception as e:  # noqa: BLE001
        return ("error", H.classify(e), None)


def make(case):
    T, cfg = case["T"], case["cfg"]
    try:
        H.layout(cfg).size_align(T)
    except R.RefReject:
        return None
    try:
        cs, cls = H.load(T, cfg)
        cs2, cls2 = H.load(T, cfg)
    except Exception:  # noqa: BLE001
        return None
    n = case["nbytes"]
    f0 = T[2][0][1] if T[0] == "struct" and T[2] else None
    char_first = bool(f0 and not T[2][0][2] and (f0[0] == "char" or (f0[0] == "arr" and f0[1][0] == "char" and isinstance(f0[2], int))))

    def run(ctx):
        data = ctx.bytes("b", n)
        full = _parse(cls, ctx.stream(data))
        ctx.observe("outcome", full[0] + (":" + full[1] if full[0] == "error" else ""))
        ref = H.ref_parser(ctx, cfg)
        try:
            ref.parse(T, data, 0)
            last_data = max(ref.mask) + 1 if ref.mask else 0
        except R.RefEOF:
            last_data = None
        if full[0] == "error" and last_data is not None:
            ctx.check("the complete input parses", False, full[1])
            return
        for k in range(n):
            cut = _parse(cls, ctx.stream(data[:k]))
            refk = H.ref_parser(ctx, cfg)
            try:
                refk.parse(T, data[:k], 0)
                short = False
            except R.RefEOF:
                short = True
            if short:
                ctx.check(f"cut@{k}: input ending before the last data byte is not parsed to a value", cut[0] == "error")
                if cut[0] == "error":
                    ctx.check(f"cut@{k}: premature end raises EOFError", cut[1] == "EOFError", cut[1])
            if cut[0] == "value" and full[0] == "value":
                ctx.check(f"cut@{k}: a value returned from the shortened input equals the one from the complete input",
                          R.lib_eq(T, cut[1], full[1]))
            if char_first and k > 0:
                # the T(bytes) call form on the same shortened input
                try:
                    cv = ("value", cls(data[:k]))
                except Exception as e:  # noqa: BLE001
                    cv = ("error", H.classify(e))
                if short:
                    ctx.check(f"cut@{k}: T(bytes) on a shortened input is not parsed to a value either", cv[0] == "error", cv[0])
                elif cv[0] == "value" and full[0] == "value":
                    ctx.check(f"cut@{k}: T(bytes) value equals the complete parse", R.lib_eq(T, cv[1], full[1]))
        if full[0] == "value":
            again = _parse(cls, ctx.stream(data))
            ctx.check("no residue: parse after failed parses == parse before", again[0] == "value" and R.lib_eq(T, again[1], full[1]) is not False
                      and (again[0] != "value" or R.lib_eq(T, again[1], full[1])))
            fresh = _parse(cls2, ctx.stream(data))
            ctx.check("no residue: parse after failed parses == parse by a fresh cstruct", fresh[0] == "value" and
                      (fresh[0] != "value" or R.lib_eq(T, again[1], fresh[1])))
    return run


def make_fault(case):
    T, cfg, mode = case["T"], case["cfg"], case["mode"]
    try:
        H.layout(cfg).size_align(T)
    except R.RefReject:
        return None
    try:
        cs, cls = H.load(T, cfg)
    except Exception:  # noqa: BLE001
        return None
    n = case["nbytes"]

    def run(ctx):
        data = ctx.bytes("b", n)
        full = _parse(cls, ctx.stream(data))
        j = ctx.choose("j", 6)
        fs = ctx.fault_stream(data, j, mode)
        got = _parse(cls, fs)
        ctx.observe("outcome", f"{full[0]}/{got[0]}/fired={fs.fired}")
        if not fs.fired:
            if full[0] == "value":
                ctx.check("no fault fired: same result", got[0] == "value" and R.lib_eq(T, got[1], full[1]))
            return
        if got[0] == "value":
            ctx.check(f"a value returned despite a {mode} fault equals the value of the complete input",
                      full[0] == "value" and R.lib_eq(T, got[1], full[1]))
        elif mode == "raise":
            ctx.check("the injected exception propagates (or EOFError)", got[1] in ("OSError", "EOFError"), got[1])
        else:
            ctx.check("a short read surfaces as EOFError", got[1] == "EOFError" or (full[0] == "error" and got[1] == full[1]), got[1])
        again = _parse(cls, ctx.stream(data))
        if full[0] == "value":
            ctx.check("no residue after the fault", again[0] == "value" and R.lib_eq(T, again[1], full[1]))
    return run


def cases(tier, seed):
    cap = 12 if tier == "quick" else 32
    i = 0
    for c in families.struct_cases(tier, seed):
        if has_eof(c["T"]):
            continue
        c = dict(c, nbytes=min(cap, c["nbytes"]))
        if tier == "quick" and "|" in c["label"] and c["cfg"]["endian"] == ">":
            continue
        yield c
        i += 1
        if (tier != "quick" and i % 4 == 0) or ("|" not in c["label"] and any(c["cfg"] == dict(p, compiled=c["cfg"]["compiled"]) or
                                                             {k: c["cfg"][k] for k in ("endian", "align", "compiled")} ==
                                                             {k: p[k] for k in ("endian", "align", "compiled")} for p in families.PAIRWISE)):
            yield dict(c, make="make_fault", mode="short", label=c["label"] + "#short")
            yield dict(c, make="make_fault", mode="raise", label=c["label"] + "#raise")
