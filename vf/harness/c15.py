"""C15 — concurrent parsing with shared types is equivalent to sequential parsing."""
import sys
import threading

from vf import refmodel as R
from vf import rt
from vf import defgen as G
from vf.harness import common as H

PROPERTY = "C15"
SETTINGS = {"witness_every": 1, "max_paths": 20000, "case_budget": 140.0, "budget_s": 300}
SETTINGS_THOROUGH = {"max_paths": 200000, "case_budget": 240.0, "budget_s": 1500}
BOUNDS = {"quick": "2 real threads parsing independent symbolic streams with the same type objects under a controlled scheduler (one "
                   "runnable at a time, hand-over only at 'line' events inside repository files or generated readers); which thread runs "
                   "next at each switch point is an ENGINE DECISION VARIABLE; <= 1 pre-emption; 6 definitions (expression-sized arrays, "
                   "bit-fields, union, pointer dereference, enum, nested struct); the threads run on types that were never used before (first-use "
                   "initialisation races) or were used once on unrelated symbolic input (remembered-state races); dumps for the union; switch points inside C calls do not exist (GIL)",
          "thorough": "as quick with <= 2 pre-emptions for the expression kernels, 3 threads for the smallest definition, and dumps as well"}

DEFS = {
    "expr-array": ("struct T { uint8 n; uint8 d[(n & 1) * 2]; uint8 t; };", 4),
    "expr-2": ("struct T { uint8 n; uint16 a[n & 1]; char c[(n >> 1) & 1]; };", 5),
    "expr-neg": ("struct T { uint8 n; uint8 d[-n & 3]; uint8 t; };", 5),
    "bitfield": ("struct T { uint16 a:3; uint16 b:9; uint16 c:4; uint8 d; };", 3),
    "union": ("union U { uint16 a; uint8 b[2]; }; struct T { uint8 h; U u; };", 3),
    "enum": ("enum E : uint8 { A = 1, B }; struct T { E e; uint8 x; };", 2),
    "pointer": ("struct T { uint8 *p; uint8 v; };", 3),
}


class Scheduler:
    """Runs the bodies one at a time; at every line event of an instrumented file the running thread may be pre-empted.
    The choice is made by `choose(n)` (an engine decision in symbolic mode, a recorded schedule in concrete mode)."""

    def __init__(self, bodies, choose, max_preempt, files, slice_=(0, 1)):
        self.bodies, self.choose, self.max_preempt, self.files = bodies, choose, max_preempt, files
        self.slice = slice_
        self.preempts = 0
        self.sems = [threading.Semaphore(0) for _ in bodies]
        self.done = [False] * len(bodies)
        self.results = [None] * len(bodies)
        self.main = threading.Semaphore(0)
        self.points = 0
        self.switches = []

    def _traced(self, code):
        fn = code.co_filename
        return fn.startswith("<compiled") or any(fn.startswith(f) for f in self.files)

    def pick(self, runnable, cur):
        others = [r for r in runnable if r != cur]
        if not others or self.preempts >= self.max_preempt:
            return cur
        if self.preempts == 0 and self.points % self.slice[1] != self.slice[0]:
            return cur  # the first pre-emption point of this case lies in its slice of the switch points
        c = self.choose(len(others) + 1)
        if c == 0:
            return cur
        self.preempts += 1
        self.switches.append((self.points, cur, others[c - 1]))
        return others[c - 1]

    def tracer(self, i):
        def local(frame, event, arg):
            if event == "line":
                self.points += 1
                nxt = self.pick([j for j in range(len(self.bodies)) if not self.done[j]], i)
                if nxt != i:
                    self.sems[nxt].release()
                    self.sems[i].acquire()
            return local

        def glob(frame, event, arg):
            return local if self._traced(frame.f_code) else None
        return glob

    def run(self):
        def wrap(i):
            self.sems[i].acquire()
            sys.settrace(self.tracer(i))
            try:
                self.results[i] = ("ok", self.bodies[i]())
            except Exception as e:  # noqa: BLE001
                self.results[i] = ("exc", type(e).__name__)
            except BaseException as e:  # noqa: BLE001  (engine control flow must reach the main thread)
                self.results[i] = ("abort", e)
            finally:
                sys.settrace(None)
                self.done[i] = True
                rest = [j for j in range(len(self.bodies)) if not self.done[j]]
                (self.sems[rest[0]] if rest else self.main).release()
        ths = [threading.Thread(target=wrap, args=(i,), daemon=True) for i in range(len(self.bodies))]
        for t in ths:
            t.start()
        self.sems[0].release()
        self.main.acquire()
        for t in ths:
            t.join()
        for r in self.results:
            if r[0] == "abort":
                raise r[1]
        return self.results


def summarize(v, kind):
    """Comparable summary of a parsed value (terms or ints)."""
    if kind == "expr-array":
        return [v.n, len(v.d), *list(v.d), v.t]
    if kind == "expr-neg":
        return [v.n, len(v.d), *list(v.d), v.t]
    if kind == "expr-2":
        return [v.n, len(v.a), *list(v.a), len(v.c)]
    if kind == "bitfield":
        return [v.a, v.b, v.c, v.d]
    if kind == "union":
        return [v.h, v.u.a, v.u.b[0], v.u.b[1]]
    if kind == "enum":
        return [v.e.value, v.x]
    if kind == "pointer":
        try:
            t = v.p.dereference()
        except Exception as e:  # noqa: BLE001
            t = -1
        return [v.p, v.v, t]
    raise ValueError(kind)


def make(case):
    kind, cfg, nthreads, max_preempt, dump = case["kind"], case["cfg"], case["threads"], case["preempt"], case.get("dump", False)
    text, n = DEFS[kind]

    warm = case.get("warm", False)

    def run(ctx):
        from dissect.cstruct import cstruct
        import dissect.cstruct as pkg
        import os
        files = [os.path.dirname(pkg.__file__)]
        # sequential results come from one universe, the threads run in another one whose types were never used
        # (or, "warm", were used once on unrelated symbolic input): first-use initialisation and remembered state both show
        cs_seq = cstruct(endian=cfg["endian"])
        cs_seq.load(text, compiled=cfg["compiled"])
        cs = cstruct(endian=cfg["endian"])
        cs.load(text, compiled=cfg["compiled"])
        Tseq, Tcls = cs_seq.T, cs.T
        datas = [ctx.bytes(f"t{i}", n) for i in range(nthreads)]

        def body(i, cls=None):
            cls = Tcls if cls is None else cls

            def f():
                v = cls.read(ctx.stream(datas[i]))
                out = summarize(v, kind)
                if dump:
                    out.append(v.dumps())
                return out
            return f
        seq = []
        for i in range(nthreads):
            try:
                seq.append(("ok", body(i, Tseq)()))
            except Exception as e:  # noqa: BLE001
                seq.append(("exc", type(e).__name__))
        if warm:
            try:
                wv = Tcls.read(ctx.stream(ctx.bytes("warm", n)))
                if dump:
                    wv.dumps()
            except Exception:  # noqa: BLE001
                pass
        counter = [0]

        def choose(k):
            counter[0] += 1
            return ctx.choose(f"sw{counter[0]}", k)
        sched = Scheduler([body(i) for i in range(nthreads)], choose, max_preempt, files, tuple(case.get("slice", (0, 1))))
        conc = sched.run()
        ctx.observe("switches", list(sched.switches))
        ctx.inputs["switch_files"] = [s[0] for s in sched.switches]
        for i in range(nthreads):
            same_kind = seq[i][0] == conc[i][0]
            ctx.check(f"thread {i}: same outcome as running alone", same_kind and (seq[i][0] == "ok" or seq[i][1] == conc[i][1]),
                      f"alone={seq[i][0]}:{seq[i][1] if seq[i][0] == 'exc' else ''} concurrent={conc[i][0]}:{conc[i][1] if conc[i][0] == 'exc' else ''} switches={sched.switches}")
            if same_kind and seq[i][0] == "ok":
                a, b = seq[i][1], conc[i][1]
                conds = [len(a) == len(b)]
                for x, y in zip(a, b):
                    if type(x) in (bytes,) or type(x) is rt.SBytes or isinstance(x, (bytes, bytearray)):
                        conds.append(R.bytes_eq(x, y))
                    else:
                        conds.append(x == y)
                ctx.check(f"thread {i}: same result as running alone", R.And(*conds), f"switches={sched.switches}")
    return run


def cases(tier, seed):
    # single pre-emption first, then the deeper (and much more expensive) schedules: a case that hits its time budget still
    # reports the violations it found up to then, but only if it returns before the property's wall budget ends
    out = list(_cases(tier, seed))
    if tier == "quick":
        return out
    # thorough: the quick tier's cases, then the deeper schedules (two pre-emptions, three threads; 100 s each - a case that
    # hits its time budget still reports what it found), then the remaining single pre-emption variants
    quick = {c["label"] + repr(c["cfg"]) for c in _cases("quick", seed)}
    for c in out:
        if c["preempt"] > 1 or c["threads"] > 2:
            c["case_budget"] = 100.0
    out.sort(key=lambda c: 0 if c["label"] + repr(c["cfg"]) in quick else 1 if (c["preempt"] > 1 or c["threads"] > 2) else 2)
    return out


def _cases(tier, seed):
    quick = tier == "quick"
    for kind in DEFS:
        for compiled in (False, True):
            for endian in ("<",) if quick else ("<", ">"):
                cfg = {"endian": endian, "compiled": compiled}
                K = 8 if kind.startswith("expr") else 4 if kind == "union" else 2
                variants = [(False, False)]
                if kind == "expr-array" or not quick:
                    variants.append((True, False))
                if kind == "union" or not quick:
                    variants.append((False, True))
                if not quick:
                    variants.append((True, True))
                for warm, dump in variants:
                    for k in range(K):
                        yield {"label": f"{kind} threads=2 preempt=1 warm={warm} dump={dump} slice={k}/{K}", "kind": kind, "cfg": cfg,
                               "threads": 2, "preempt": 1, "slice": [k, K], "warm": warm, "dump": dump}
                if not quick:
                    if kind in ("expr-2", "enum", "expr-neg") and endian == "<":
                        for k in range(16):
                            yield {"label": f"{kind} threads=2 preempt=2 slice={k}/16", "kind": kind, "cfg": cfg, "threads": 2, "preempt": 2,
                                   "slice": [k, 16]}
                    if kind == "enum":
                        for k in range(4):
                            yield {"label": f"{kind} threads=3 preempt=1 slice={k}/4", "kind": kind, "cfg": cfg, "threads": 3, "preempt": 1,
                                   "slice": [k, 4]}
