"""C13 — definition parsing ignores comments, spacing and the order of unrelated definitions; aliases resolve exactly."""
import itertools
import re

from vf import refmodel as R
from vf.harness import common as H

PROPERTY = "C13"
ALLOW_NO_CHECKS = False
BOUNDS = {"all": "(a) alias tables over 3 (quick) / 4 (thorough) names whose targets (three real types, two of equal size, the 4 names, one unknown name) are engine decisions: "
                 "every table incl. chains, cycles and dangling names; re-declaration with same/other target; (b) a corpus of 9 definition "
                 "texts (structs, unions, anonymous members, typedef struct with several names and pointer names, enums, flags, bit-fields, "
                 "#define, typedef chains, self reference): every single insertion of a trivia atom (space, tab, newline, CRLF, block "
                 "comment, multi-line block comment, line comment; plus ten tricky comment forms such as '/**/', '/*/ x /*/', '// /* not a block', comments containing ; { } and quotes, at every 6th boundary in the quick tier) at every token boundary outside array brackets and #define lines, pairs "
                 "of insertions sampled by VERIF_SEED (thorough), and texts that end right after a comment (no final newline), and every dependency-respecting order of the top-level definitions "
                 "(<= 24 orders per text); loaded types compared by name table, constants, layout signature and by parse/dump of symbolic "
                 "bytes; (c) trivia characters as solver variables: not built (see DESIGN.md)"}

# each text: list of top-level units (name it provides, names it needs, text)
CORPUS = {
    "basic": [("#K", [], "#define K 2\n"),
              ("inner", [], "struct inner {\n    uint8 x;\n    int16 y;\n};\n"),
              ("E", [], "enum E : uint16 {\n    A = 1,\n    B,\n    C = 7\n};\n"),
              ("test", ["inner", "E", "#K"], "struct test {\n    uint8 a;\n    uint32 b[K];\n    inner s;\n    E e;\n    char name[4];\n    uint16 *p;\n};\n")],
    "typedefs": [("u16", [], "typedef uint16 u16_t;\n"),
                 ("alias2", ["u16"], "typedef u16_t word_t;\n"),
                 ("pair", ["alias2"], "typedef struct _pair {\n    word_t lo;\n    u16_t hi;\n} pair_t, pair2_t;\ntypedef pair_t *ppair_t;\n"),
                 ("test", ["pair"], "struct test {\n    pair_t p;\n    unsigned int n;\n    ppair_t q;\n    signed char c;\n};\n")],
    "bits": [("F", [], "flag F : uint8 {\n    X,\n    Y,\n    Z = 0x10\n};\n"),
             ("test", ["F"], "struct test {\n    uint16 a : 3;\n    uint16 b : 13;\n    F f : 4;\n    F g : 4;\n    uint8 t;\n};\n")],
    "anon": [("test", [], "struct test {\n    uint8 kind;\n    union {\n        uint32 raw;\n        struct {\n            uint16 lo;\n            uint16 hi;\n        };\n    };\n    struct {\n        uint8 r;\n        uint8 g;\n    } color;\n};\n")],
    "dynamic": [("#N", [], "#define N 3\n"),
                ("test", ["#N"], "struct test {\n    uint8 n;\n    char s[];\n    uint16 d[n & 1];\n    uint8 fixed[N];\n    uint8 t;\n};\n")],
    "selfref": [("node", [], "struct node {\n    uint16 v;\n    node *next;\n};\n"),
                ("test", ["node"], "struct test {\n    node head;\n    uint8 t;\n};\n")],
    "enumanon": [("vals", [], "enum : uint8 {\n    V0,\n    V1 = 5,\n    V2\n};\n"),
                 ("test", [], "struct test {\n    uint8 a;\n    uint64 b;\n};\n")],
    "union": [("U", [], "union U {\n    uint32 a;\n    uint8 b[4];\n};\n"),
              ("test", ["U"], "typedef struct {\n    U u;\n    long long big;\n    unsigned long long ubig;\n} test;\n")],
    "sametag": [("A", [], "struct A {\n    uint8 n;\n    struct entry {\n        uint8 a;\n    } entries[2];\n};\n"),
                ("B", [], "struct B {\n    struct entry {\n        uint32 x;\n        uint16 y;\n    } entries[2];\n    uint8 t;\n};\n"),
                ("test", ["A", "B"], "struct test {\n    A a;\n    B b;\n    uint48 u[2];\n    int48 s[2];\n};\n")],
    "names": [("point", [], "struct point {\n    uint8 x;\n    uint8 y;\n} pt, point_t;\n"),
              ("anonpair", [], "struct {\n    uint16 lo;\n    uint16 hi;\n} pair_a, pair_b;\n"),
              ("test", ["point", "anonpair"], "struct test {\n    pt a;\n    point_t b;\n    point c;\n    pair_a p;\n    pair_b q;\n};\n")],
    "multi": [("A", [], "struct A {\n    uint8 x;\n};\n"), ("B", [], "struct B {\n    uint16 y;\n};\n"), ("Cc", [], "typedef uint32 Cc;\n"),
              ("test", ["A", "B", "Cc"], "struct test {\n    A a;\n    B b;\n    Cc c;\n};\n")],
}
ATOMS = [" ", "\t", "\n", "\r\n", "/* c */", "/* multi\n   line */", "// line comment\n", "  /**/  "]
TRICKY = ["/**/ ", " /*/ x /*/ ", "//\n", " /* // */ ", "// /* not a block\n", " /***/ ", "\n\n", " /* ; { } */ ", "// ; }\n", " /* \"q\" */ "]
TOKEN = re.compile(r"[A-Za-z_][A-Za-z0-9_]*|0[xX][0-9a-fA-F]+|\d+|\S")


def boundaries(text):
    """Offsets between tokens where trivia may be inserted: not inside [...] and not on #define lines."""
    out = []
    depth = 0
    pos = 0
    for line in text.splitlines(keepends=True):
        if line.lstrip().startswith("#"):
            pos += len(line)
            continue
        toks = list(TOKEN.finditer(line))
        for i, m in enumerate(toks):
            t = m.group()
            if depth == 0 and i > 0 and toks[i - 1].group() not in ("[",):
                out.append(pos + m.start())
            if t == "[":
                depth += 1
            elif t == "]":
                depth -= 1
        if depth == 0:
            out.append(pos + len(line.rstrip("\r\n")))
        pos += len(line)
    return sorted(set(out))


def orders(units):
    n = len(units)
    res = []
    for perm in itertools.permutations(range(n)):
        seen = set()
        ok = True
        for i in perm:
            if any(d not in seen for d in units[i][1]):
                ok = False
                break
            seen.add(units[i][0])
        if ok:
            res.append(perm)
        if len(res) >= 24:
            break
    return res


def signature(cs, base_names):
    from dissect.cstruct.types import Structure
    from dissect.cstruct.types.enum import EnumMetaType

    def tsig(t, depth=0):
        if isinstance(t, str):
            return "alias:" + t
        s = [t.__name__, t.size, t.alignment, getattr(t, "dynamic", None)]
        if depth < 4 and isinstance(t, type) and issubclass(t, Structure):
            s.append([(f._name if not f._name.startswith("__anonymous") else "<anon>", f.offset, f.bits, tsig(f.type, depth + 1))
                      for f in t.__fields__])
        elif isinstance(t, EnumMetaType):
            s.append(sorted((k, v.value) for k, v in t.__members__.items()))
            s.append(t.type.__name__)
        elif hasattr(t, "type") and isinstance(getattr(t, "type"), type) and depth < 4:
            s.append(tsig(t.type, depth + 1))
            s.append(str(getattr(t, "num_entries", None)))
        return [x if not (isinstance(x, str) and x.startswith("__anonymous")) else "<anon>" for x in s]
    names = sorted(n for n in cs.typedefs if n not in base_names)
    out = {}
    for n in names:
        try:
            out[n] = tsig(cs.resolve(n))
        except Exception as e:  # noqa: BLE001
            out[n] = "unresolvable:" + type(e).__name__
    consts = {k: (int(v) if isinstance(v, int) else v if isinstance(v, (str, bytes)) else repr(v)) for k, v in cs.consts.items()}
    return out, consts


def make(case):
    from dissect.cstruct import cstruct
    units = CORPUS[case["corpus"]]
    base_text = "".join(u[2] for u in units)
    if case["kind"] == "trivia":
        text = base_text
        for off, atom in sorted(case["inserts"], reverse=True):
            text = text[:off] + atom + text[off:]
    elif case["kind"] == "tail":
        text = base_text.rstrip("\n") + case["tail"]
    else:
        text = "".join(units[i][2] for i in case["order"])
    cfg = case["cfg"]
    base_names = set(cstruct().typedefs)

    def run(ctx):
        a = cstruct(endian=cfg["endian"])
        a.load(base_text, compiled=cfg["compiled"], align=cfg["align"])
        b = cstruct(endian=cfg["endian"])
        try:
            b.load(text, compiled=cfg["compiled"], align=cfg["align"])
        except Exception as e:  # noqa: BLE001
            ctx.check("the variant text loads like the original", False, H.classify(e) + ": " + str(e)[:80])
            return
        sa, ca = signature(a, base_names)
        sb, cb = signature(b, base_names)
        ctx.check("same type names and layouts", sa == sb, _diff(sa, sb))
        ctx.check("same constants", ca == cb, f"{ca} vs {cb}")
        ta, tb = a.test, b.test
        n = min(40, (ta.size or 12) + 6) if not ta.dynamic else 16
        data = ctx.bytes("b", n)
        ra, rb = _parse(ta, ctx.stream(data)), _parse(tb, ctx.stream(data))
        ctx.observe("outcome", ra[0])
        ctx.check("same parse outcome", ra[0] == rb[0] and (ra[0] == "value" or ra[1] == rb[1]), f"{ra[0]} vs {rb[0]}")
        if ra[0] == rb[0] == "value":
            ctx.check("same bytes consumed", ra[2] == rb[2])
            ctx.check("same parsed values", generic_eq(ra[1], rb[1]))
            try:
                ctx.check("same dump", R.bytes_eq(ra[1].dumps(), rb[1].dumps()))
            except Exception as e:  # noqa: BLE001
                ctx.check("both dump", False, H.classify(e))
    return run


def _diff(sa, sb):
    for k in sorted(set(sa) | set(sb)):
        if sa.get(k) != sb.get(k):
            return f"{k}: {sa.get(k)} vs {sb.get(k)}"[:300]
    return None


def _parse(cls, stream):
    try:
        v = cls.read(stream)
        return ("value", v, stream.tell())
    except Exception as e:  # noqa: BLE001
        return ("error", H.classify(e), None)


def generic_eq(x, y, depth=0):
    """Structural equality of two library values without a type descriptor."""
    from vf import rt
    fields = getattr(type(x), "__fields__", None) if not rt.is_proxy(x) else None
    if type(x).__name__ == "UnionProxy":
        return generic_eq(x.__target__, y.__target__ if type(y).__name__ == "UnionProxy" else y, depth)
    if fields is not None and depth < 6:
        cs = [generic_eq(getattr(x, f._name), getattr(y, f._name), depth + 1) for f in fields]
        return R.And(*cs) if cs else True
    if isinstance(x, list):
        if len(x) != len(y):
            return False
        cs = [generic_eq(a, b, depth + 1) for a, b in zip(x, y)]
        return R.And(*cs) if cs else True
    px = rt.payload(x)
    if type(px) is rt.SStr or (isinstance(x, str) and not rt.is_proxy(x)):
        ua, ub = R.units_of(x), R.units_of(y)
        return len(ua) == len(ub) and R.And(*[a == b for a, b in zip(ua, ub)])
    if type(px) is rt.SBytes or isinstance(x, (bytes, bytearray)):
        return R.bytes_eq(x, y)
    if x is None or y is None:
        return x is y
    if hasattr(x.__class__, "__members__"):
        return x.value == y.value      # enum members of two cstruct objects never compare equal themselves
    return x == y


def make_alias(case):
    """add_type / resolve / attribute access on alias tables whose targets are engine decisions."""
    def run(ctx):
        from dissect.cstruct import cstruct
        from dissect.cstruct.exceptions import ResolveError
        cs = cstruct()
        names = ["n0", "n1", "n2", "n3"][:case["names"]]
        strs = cs._make_array(cs.char, None)
        real = [cs.uint8, cs.int8, cs.int32, cs._make_array(strs, 2), cs._make_array(strs, 3)]   # the last two: same kind, size None
        options = real + names + ["zz_unknown"]
        table = {}
        for i, nm in enumerate(names):
            j = case["first"] if i == 0 else ctx.choose("t_" + nm, len(options))
            table[nm] = options[j]
        for nm in names:
            try:
                cs.add_type(nm, table[nm])
            except Exception as e:  # noqa: BLE001
                ctx.check(f"first declaration of {nm} accepted", False, H.classify(e))
                return

        def ref_resolve(nm):
            seen = set()
            cur = nm
            while isinstance(cur, str):
                if cur in seen or cur not in table:
                    return None
                seen.add(cur)
                cur = table[cur]
            return cur
        ctx.observe("table", {k: (v if isinstance(v, str) else v.__name__) for k, v in table.items()})
        for nm in names:
            exp = ref_resolve(nm)
            try:
                got = ("type", cs.resolve(nm))
            except ResolveError:
                got = ("ResolveError", None)
            except Exception as e:  # noqa: BLE001
                got = (H.classify(e), None)
            if exp is None:
                ctx.check(f"{nm}: unknown or cyclic alias is reported as a resolve error", got[0] == "ResolveError", got[0])
            else:
                ctx.check(f"{nm}: resolves to the very same type", got[0] == "type" and got[1] is exp, got[0])
                try:
                    ctx.check(f"{nm}: attribute access gives the same type", getattr(cs, nm) is exp)
                except Exception as e:  # noqa: BLE001
                    ctx.check(f"{nm}: attribute access works", False, H.classify(e))
        # re-declaration
        k = ctx.choose("redecl_name", len(names))
        j = ctx.choose("redecl_target", len(options))
        nm, tgt = names[k], options[j]
        old = ref_resolve(nm)
        new = tgt if not isinstance(tgt, str) else (ref_resolve(tgt) if tgt in table else None)
        try:
            cs.add_type(nm, tgt)
            outcome = "accepted"
        except ValueError:
            outcome = "ValueError"
        except ResolveError:
            outcome = "ResolveError"
        except Exception as e:  # noqa: BLE001
            outcome = H.classify(e)
        ctx.observe("redecl", outcome)
        if old is not None and new is not None:
            if old is new:
                ctx.check("re-declaring an alias for the same target is accepted", outcome == "accepted", outcome)
            else:
                ctx.check("re-declaring an alias for another target is refused", outcome == "ValueError", outcome)
                ctx.check("a refused re-declaration leaves the alias unchanged", cs.resolve(nm) is old)
        ctx.check("replace=True always rebinds", _rebinds(cs, nm, real[0]))
    return run


def _rebinds(cs, nm, t):
    cs.add_type(nm, t, replace=True)
    return cs.resolve(nm) is t


LOAD_A = "struct native { uint8 tag; uint64 big; };\n"
LOAD_B = "struct test { uint8 a; uint32 b; uint16 c; uint8 d:3; uint8 e:5; };\n"


def make_load_options(case):
    """Options of one load() call do not leak into later load() calls on the same object."""
    from dissect.cstruct import cstruct
    first_kw, cfg = case["first_kw"], case["cfg"]
    base_names = set(cstruct().typedefs)

    def run(ctx):
        a = cstruct(endian=cfg["endian"])
        a.load(LOAD_A, **first_kw)
        a.load(LOAD_B)                      # defaults: compiled, packed
        b = cstruct(endian=cfg["endian"])
        b.load(LOAD_B)
        sa, _ = signature(a, base_names | {"native"})
        sb, _ = signature(b, base_names)
        ctx.check("a later load() uses its own options (layout as when loaded alone)", sa == sb, _diff(sa, sb))
        ctx.check("a later load() uses its own options (reader kind)", bool(a.test.__compiled__) == bool(b.test.__compiled__))
        data = ctx.bytes("b", 12)
        ra, rb = _parse(a.test, ctx.stream(data)), _parse(b.test, ctx.stream(data))
        ctx.check("same parse outcome", ra[0] == rb[0])
        if ra[0] == rb[0] == "value":
            ctx.check("same values and position", R.And(generic_eq(ra[1], rb[1]), ra[2] == rb[2]))
    return run


def cases(tier, seed):
    import random
    for kw in ({"align": True}, {"compiled": False}, {"align": True, "compiled": False}):
        for e in "<>":
            yield {"label": f"load-options {kw}", "first_kw": kw, "cfg": {"endian": e}, "make": "make_load_options"}
    cfgs = [{"endian": "<", "align": False, "compiled": True}, {"endian": ">", "align": True, "compiled": False}]
    nn = 3 if tier == "quick" else 4
    for first in range(nn + 6):
        yield {"label": f"alias tables names={nn} first-target={first}", "make": "make_alias", "names": nn, "first": first}
    rng = random.Random(seed)
    for cname, units in CORPUS.items():
        text = "".join(u[2] for u in units)
        bs = boundaries(text)
        for i, off in enumerate(bs):
            for j, atom in enumerate(ATOMS):
                cfg = cfgs[(i + j) % 2]
                yield {"label": f"{cname} trivia@{off} {atom!r}", "corpus": cname, "kind": "trivia", "inserts": [[off, atom]], "cfg": cfg}
        for i, off in enumerate(bs):
            if tier == "quick" and i % 6 != (len(cname) % 6):
                continue
            for j, atom in enumerate(TRICKY):
                yield {"label": f"{cname} trivia@{off} {atom!r}", "corpus": cname, "kind": "trivia", "inserts": [[off, atom]], "cfg": cfgs[(i + j) % 2]}
        if tier != "quick":
            for _ in range(300):
                ins = sorted([[rng.choice(bs), rng.choice(ATOMS)] for _ in range(rng.randint(2, 4))])
                yield {"label": f"{cname} trivia-multi {ins!r}"[:80], "corpus": cname, "kind": "trivia", "inserts": ins, "cfg": rng.choice(cfgs)}
        for tail in (" // trailing comment without a newline", "// c", " /* c */", "\n// c", "\n\n   ", "\r\n", ""):
            for cfg in cfgs[:1]:
                yield {"label": f"{cname} tail {tail!r}", "corpus": cname, "kind": "tail", "tail": tail, "cfg": cfg}
        for perm in orders(units):
            for cfg in cfgs:
                yield {"label": f"{cname} order {list(perm)}", "corpus": cname, "kind": "order", "order": list(perm), "cfg": cfg}
