"""C06 — bit-fields partition their storage unit exactly, in endian-defined order."""
import itertools
import random

from vf import refmodel as R
from vf import defgen as G
from vf.harness import common as H
from vf import families

PROPERTY = "C06"
BOUNDS = {"all": "definitions: every sequence of 1..3 bit-fields (quick; thorough adds random 4..6) over storage types "
                 "{uint8,16,32,64,int8,16,32,uint24,char,enum:uint16,enum:int8,flag:uint8} and a width alphabet incl. unit-exhausting and "
                 "straddling widths, interleaved with non-bit members and dynamic members; x {<,>} x {packed,aligned} x {interpreted,"
                 "compiled}; all unit contents symbolic; written values: every value < 2^width; plus the real BitBuffer driven directly with "
                 "SYMBOLIC widths w1..wk (k <= 3 quick / 4 thorough, sum <= unit bits) on 8/16/32/64-bit units, both byte orders, read and "
                 "write: every width sequence of that length in one query family"}

STORAGE = [("u8", G.U8), ("u16", G.U16), ("u32", G.U32), ("u64", G.U64), ("i8", G.I8), ("i16", G.I16), ("i32", G.I32),
           ("u24", G.U24), ("char", G.CHAR), ("E", G.E16), ("ES", G.E8S), ("F", G.F8)]
WIDTHS = [1, 3, 4, 5, 7, 8, 9, 12, 15, 16, 17, 23, 24, 31, 32, 33, 63, 64]
SEPARATORS = [("u8", G.U8, None), ("u32", G.U32, None), ("inner", G.INNER, None), ("dyn", G.arr(G.U8, ["expr", ["bin", "&", ["id", "K1"], ["num", 1]]]), None)]


def nbits(T):
    return R.Layout(False, 8).size_align(T)[0] * 8


def gen(tier, seed):
    out = []
    for sname, ST in STORAGE:
        nb = nbits(ST)
        ws = [w for w in WIDTHS if w <= nb] + [nb + 1]
        for w in ws:
            out.append((f"{sname}:{w}", [(ST, w)]))
        for w1, w2 in itertools.product([w for w in ws if w <= nb], repeat=2):
            if w1 + w2 <= nb + 8:
                out.append((f"{sname}:{w1},{w2}", [(ST, w1), (ST, w2)]))
        small = [w for w in (1, 3, 4, 8, nb // 2, nb - 1) if 0 < w <= nb]
        for w1, w2, w3 in itertools.product(small, repeat=3):
            if w1 + w2 + w3 <= nb + 4:
                out.append((f"{sname}:{w1},{w2},{w3}", [(ST, w1), (ST, w2), (ST, w3)]))
    rng = random.Random(seed)
    mixed = []
    for (s1, T1), (s2, T2) in itertools.product(STORAGE[:10], repeat=2):
        if s1 == s2:
            continue
        w1 = rng.choice([w for w in WIDTHS if w <= nbits(T1)])
        w2 = rng.choice([w for w in WIDTHS if w <= nbits(T2)])
        mixed.append((f"{s1}:{w1}|{s2}:{w2}|{s1}:{w1}", [(T1, w1), (T2, w2), (T1, min(w1, nbits(T1) - w1) or 1)]))
    out += mixed
    # separators between units / partially filled units
    for sep in SEPARATORS:
        for sname, ST in STORAGE[:4] + STORAGE[4:5] + STORAGE[9:10]:
            nb = nbits(ST)
            out.append((f"{sname}:3|{sep[0]}|{sname}:5", [(ST, 3), sep, (ST, min(5, nb))]))
            out.append((f"{sep[0]}|{sname}:{nb}|{sname}:1", [sep, (ST, nb), (ST, 1)]))
            out.append((f"{sname}:{nb - 1}|{sname}:1|{sep[0]}", [(ST, nb - 1), (ST, 1), sep]))
    if tier != "quick":
        for i in range(1500):
            k = rng.randint(4, 6)
            items, lab = [], []
            for _ in range(k):
                if rng.random() < 0.2:
                    sep = rng.choice(SEPARATORS)
                    items.append(sep)
                    lab.append(sep[0])
                else:
                    sname, ST = rng.choice(STORAGE)
                    w = rng.choice([w for w in WIDTHS if w <= nbits(ST)])
                    items.append((ST, w))
                    lab.append(f"{sname}:{w}")
            out.append(("rand:" + "|".join(lab), items))
    for label, items in out:
        fields = []
        for i, it in enumerate(items):
            if len(it) == 2:
                fields.append([f"f{i}", it[0], it[1]])
            else:
                fields.append([f"f{i}", it[1], None])
        yield label, ["struct", "test", fields, False]


def _try_load(T, cfg):
    try:
        return H.load(T, cfg), None
    except Exception as e:  # noqa: BLE001
        return None, H.classify(e) + ": " + str(e)[:80]


def make(case):
    T, cfg = case["T"], case["cfg"]
    L = H.layout(cfg)
    try:
        L.size_align(T)
        rejected = False
    except R.RefReject:
        rejected = True
    loaded, err = _try_load(T, cfg)
    n = case["nbytes"]

    def run(ctx):
        if rejected:
            ctx.check("a bit-field that would straddle its storage unit is rejected at load", loaded is None)
            return
        ctx.check("definition accepted by the C rules loads", loaded is not None, err)
        if loaded is None:
            return
        cs, cls = loaded
        data = ctx.bytes("b", n)
        s = ctx.stream(data)
        ref = H.ref_parser(ctx, cfg)
        try:
            rv, rpos = ref.parse(T, data, 0)
        except R.RefEOF:
            return
        try:
            v = cls.read(s)
        except Exception as e:  # noqa: BLE001
            ctx.observe("outcome", "parse:" + H.classify(e))
            ctx.check("input covering the reference extent parses", False, H.classify(e))
            return
        ctx.observe("outcome", "value")
        ctx.check("bytes consumed = reference extent (units allocated exactly where C says)", s.tell() == rpos, f"{H.show(s.tell())} vs {rpos}")
        for fname, FT, bits in T[2]:
            lv = getattr(v, fname)
            if bits:
                iv = lv.value if FT[0] == "enum" else lv
                ctx.observe(fname, iv)
                ctx.check(f"{fname}: value = reference bit slice", iv == rv[fname])
                ctx.check(f"{fname}: 0 <= value < 2^{bits}", R.And(iv >= 0, iv < (1 << bits)))
            else:
                ctx.check(f"{fname}: non-bit member = reference", R.value_eq(FT, lv, rv[fname]))
    return run


def make_write(case):
    T, cfg = case["T"], case["cfg"]
    L = H.layout(cfg)
    try:
        size, _ = L.size_align(T)
    except R.RefReject:
        return None
    if size is None:
        return None
    loaded, err = _try_load(T, cfg)
    if loaded is None:
        return None
    cs, cls = loaded

    def run(ctx):
        from vf.harness.c01 import Builder
        b = Builder(ctx, cs, cfg, in_range=True)
        v, refv = b.build(T, cls)
        try:
            o = v.dumps()
        except Exception as e:  # noqa: BLE001
            ctx.observe("outcome", "dump:" + H.classify(e))
            ctx.check("values that fit can be written", False, H.classify(e))
            return
        ctx.observe("dumped", o)
        ctx.check("dump length = structure size", len(o) == size, f"{len(o)} vs {size}")
        ref = H.ref_parser(ctx, cfg)
        try:
            rv, _ = ref.parse(T, o, 0)
        except R.RefEOF:
            ctx.check("dump covers the reference extent", False)
            return
        for fname, FT, bits in T[2]:
            if bits:
                ctx.check(f"{fname}: written bits decode (by the reference) to the value written", rv[fname] == refv[fname])
            elif FT[0] in ("int", "enum"):
                ctx.check(f"{fname}: written member decodes to the value written", rv[fname] == refv[fname])
        for i in range(len(o)):
            m = ref.mask.get(i, 0)
            if m != 0xFF:
                ctx.check(f"unassigned bits zero @{i}", (o[i] & (0xFF ^ m)) == 0)
    return run


def cases(tier, seed):
    cfgs = families.PAIRWISE if tier == "quick" else list(G.configs())
    from vf.harness.c01 import constructible
    net = {"endian": "!", "align": False, "compiled": False, "pointer": "uint64"}
    for i, (label, T) in enumerate(gen(tier, seed)):
        for cfg in list(cfgs) + ([net, dict(net, compiled=True, align=True)] if tier != "quick" or i % 4 == 0 else []):
            yield {"label": label, "T": T, "cfg": cfg, "nbytes": H.input_len(T, cfg)}
            if constructible(T) and not cfg["compiled"]:
                yield {"label": label + "#write", "T": T, "cfg": cfg, "make": "make_write"}


# ------------------------------------------------------------------------------------------ unit level, symbolic widths
def make_unit(case):
    """The real BitBuffer driven directly with SYMBOLIC widths: one query family covers every width sequence of length k."""
    from dissect.cstruct import cstruct
    from dissect.cstruct.bitbuffer import BitBuffer
    nbytes, endian, k, mode, signed = case["nbytes"], case["endian"], case["k"], case["mode"], case.get("signed", False)
    nb = 8 * nbytes
    big = endian in (">", "!")   # network order is big endian

    def run(ctx):
        cs = cstruct(endian=endian)
        t = cs.resolve(R.int_name(nbytes, signed))
        ws = [ctx.int(f"w{i}", 1, nb) for i in range(k)]
        total = 0
        for w in ws:
            total = total + w
        ctx.constrain(total <= nb)
        if mode == "read":
            data = ctx.bytes("u", nbytes + 1)
            s = ctx.stream(data)
            bb = BitBuffer(s, endian)
            U = R.be_int(data, 0, nbytes) if big else R.le_int(data, 0, nbytes)
            used = 0
            for i, w in enumerate(ws):
                try:
                    v = bb.read(t, w)
                except Exception as e:  # noqa: BLE001
                    ctx.check(f"field {i}: widths that fit the unit are readable", False, H.classify(e))
                    return
                shift = (nb - used - w) if big else used
                exp = (U >> shift) & ((1 << w) - 1)
                ctx.check(f"field {i}: value = bits [{'msb' if big else 'lsb'} first] of the unit", v == exp)
                ctx.check(f"field {i}: 0 <= value < 2^width", R.And(v >= 0, v < (1 << w)))
                used = used + w
            ctx.check("exactly one storage unit consumed", s.tell() == nbytes)
            return
        vals = []
        for i, w in enumerate(ws):
            v = ctx.int(f"v{i}", 0, (1 << nb) - 1)
            ctx.constrain(v < (1 << w))
            vals.append(v)
        s = ctx.stream(b"")
        bb = BitBuffer(s, endian)
        used = 0
        U = 0
        for w, v in zip(ws, vals):
            try:
                bb.write(t, v, w)
            except Exception as e:  # noqa: BLE001
                ctx.check("values that fit are writable", False, H.classify(e))
                return
            shift = (nb - used - w) if big else used
            U = U | (v << shift)
            used = used + w
        try:
            bb.flush()
        except Exception as e:  # noqa: BLE001
            ctx.check("flushing a unit of fitting values works", False, H.classify(e))
            return
        o = s.getvalue()
        ctx.observe("unit", o)
        ctx.check("exactly one storage unit written", len(o) == nbytes, f"{len(o)}")
        if len(o) == nbytes:
            got = R.be_int(o, 0, nbytes) if big else R.le_int(o, 0, nbytes)
            ctx.check("unit = composition of the fields, unused bits zero", got == U)
    return run


_struct_cases = cases


def cases(tier, seed):  # noqa: F811
    for nbytes in (1, 2, 4, 8):
        for endian in "<>!":
            for k in (1, 2, 3) if tier == "quick" else (1, 2, 3, 4):
                for mode in ("read", "write"):
                    for signed in (False, True):
                        if signed and (mode == "read" or k != 2):
                            continue
                        yield {"label": f"unit {nbytes}B {endian} k={k} {mode}{' signed' if signed else ''}", "nbytes": nbytes, "endian": endian,
                               "k": k, "mode": mode, "signed": signed, "make": "make_unit", "width": 96 if nbytes <= 4 else 192}
    yield from _struct_cases(tier, seed)
