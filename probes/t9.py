"""C15 probe: thread schedule = engine decisions, data symbolic, real Expression/array code."""
import sys, threading, time, faulthandler; faulthandler.dump_traceback_later(200, exit=True)
sys.path.insert(0, "/verif/probes")
import symrt, z3
symrt.install()
from symrt import ENGINE, SymStream, SBytes, SInt, bv, b8
from dissect.cstruct import cstruct
import dissect.cstruct.expression as X
TARGET = X.__file__

class Sched:
    def __init__(self, bodies, max_preempt):
        self.bodies = bodies; self.max_preempt = max_preempt; self.preempts = 0
        self.sems = [threading.Semaphore(0) for _ in bodies]
        self.done = [False] * len(bodies); self.results = [None] * len(bodies)
        self.main = threading.Semaphore(0); self.nchoice = 0; self.schedule = []
    def pick(self, runnable, cur):
        if cur in runnable and (self.preempts >= self.max_preempt or len(runnable) == 1):
            return cur
        if cur not in runnable:
            return runnable[0]
        other = [r for r in runnable if r != cur][0]
        b = z3.Bool(f"sw{self.nchoice}"); self.nchoice += 1
        if ENGINE.decide(b):          # engine decision variable: pre-empt here?
            self.preempts += 1; self.schedule.append((self.nchoice - 1, cur, other)); return other
        return cur
    def tracer(self, i):
        def local(frame, event, arg):
            if event == "line" and frame.f_code.co_filename == TARGET:
                nxt = self.pick([j for j in range(len(self.bodies)) if not self.done[j]], i)
                if nxt != i:
                    self.sems[nxt].release(); self.sems[i].acquire()
            return local
        return lambda frame, event, arg: local if frame.f_code.co_filename == TARGET else None
    def run(self):
        def wrap(i):
            self.sems[i].acquire(); sys.settrace(self.tracer(i))
            try: self.results[i] = ("ok", self.bodies[i]())
            except Exception as e: self.results[i] = ("exc", type(e).__name__)
            except BaseException as e: self.results[i] = ("abort", e)
            finally:
                sys.settrace(None); self.done[i] = True
                rest = [j for j in range(len(self.bodies)) if not self.done[j]]
                (self.sems[rest[0]] if rest else self.main).release()
        ths = [threading.Thread(target=wrap, args=(i,)) for i in range(len(self.bodies))]
        for t in ths: t.start()
        self.sems[0].release(); self.main.acquire()
        for t in ths: t.join()
        for r in self.results:
            if r[0] == "abort": raise r[1]
        return self.results

cs = cstruct(); cs.load("struct T { uint8 n; uint8 m; uint8 d[(n & 1) + (m & 1)]; };", compiled=False)
T = cs.T
d0 = SBytes([z3.BitVec(f"x{i}", 8) for i in range(5)]); d1 = SBytes([z3.BitVec(f"y{i}", 8) for i in range(5)])
def body(d):
    return lambda: len(T.read(SymStream(d)).d)
def path():
    seq = [body(d0)(), body(d1)()]
    s = Sched([body(d0), body(d1)], max_preempt=1)
    return seq, s.run(), list(s.schedule)
t = time.time(); res = ENGINE.explore(path)
bad = [(out[2], out[0], out[1], pc) for kind, out, pc in res if kind == "ok" and [("ok", v) for v in out[0]] != out[1]]
print("paths", len(res), "violating", len(bad), "inconclusive", sum(1 for k, *_ in res if k != "ok"), "wall %.2fs" % (time.time() - t), "queries", ENGINE.queries)
if bad:
    sched, seq, conc, pc = bad[0]
    ENGINE.solver.reset(); ENGINE.solver.add(*pc); ENGINE.check(); m = ENGINE.solver.model()
    print("first violating schedule (choice idx, from, to):", sched, "sequential lens", seq, "concurrent", conc)
    print("  witness bytes t0:", [m.eval(b, model_completion=True).as_long() for b in d0.items[:2]], "t1:", [m.eval(b, model_completion=True).as_long() for b in d1.items[:2]])
