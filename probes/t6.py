import sys, time, traceback, faulthandler; faulthandler.dump_traceback_later(100, exit=True)
sys.path.insert(0, "/verif/probes")
import symrt, z3
symrt.install()
from symrt import ENGINE, SymStream, SBytes, SInt, Inconclusive, b8, bv
from dissect.cstruct import cstruct

def show(name, res):
    kinds = {}
    for kind, out, pc in res:
        key = kind if kind == "ok" else out[:90]
        kinds[key] = kinds.get(key, 0) + 1
    print(f"{name}: paths={len(res)} {kinds}")

# ---- union: read, assign member with symbolic value, observe other members + dumps
cs = cstruct()
cs.load("union U { uint32 a; struct { uint8 x; uint8 y; } s; char c[3]; uint16 h[2]; };", compiled=False)
data = SBytes([z3.BitVec(f"b{i}", 8) for i in range(4)])
v = z3.BitVec("v", symrt.W)
def upath():
    ENGINE.solver.add(v >= 0, v < 256)
    u = cs.U.read(SymStream(data))
    before = (u.a, u.s.x, u.s.y, u.c, u.h[0], u.h[1])
    u.s.y = SInt(v)           # nested assignment through the proxy
    out = SymStream([]); cs.U.write(out, u)
    return before, (u.a, u.s.x, u.s.y, u.c, u.h[1]), out.getvalue()
try:
    res = ENGINE.explore(upath); show("union", res)
    for kind, out, pc in res:
        if kind != "ok": continue
        before, after, dumped = out
        ENGINE.solver.reset(); ENGINE.solver.add(*pc); ENGINE.solver.add(v >= 0, v < 256)
        b = [z3.ZeroExt(symrt.W - 8, b8(x)) for x in data.items]
        exp_a = b[0] | (v << 8) | (b[2] << 16) | (b[3] << 24)
        print("  a after == expected:", ENGINE.prove(bv(after[0]) == exp_a) is None,
              "| s.y == v:", ENGINE.prove(bv(after[2]) == v) is None,
              "| h[1] unchanged:", ENGINE.prove(bv(after[4]) == bv(before[5])) is None,
              "| dumps[1]==v:", ENGINE.prove(z3.ZeroExt(symrt.W-8, b8(dumped.items[1])) == v) is None, "len", len(dumped))
except Exception as e:
    traceback.print_exc()

# ---- flag
for compiled in (False, True):
    cs2 = cstruct()
    cs2.load("flag F : uint8 { A, B, C }; struct T { F e; uint8 t; F arr[2]; };", compiled=compiled)
    d2 = SBytes([z3.BitVec(f"c{i}", 8) for i in range(4)])
    def fpath():
        o = cs2.T.read(SymStream(d2))
        out = SymStream([]); cs2.T.write(out, o)
        return o.e.value, out.getvalue()
    try:
        t = time.time(); res = ENGINE.explore(fpath); show(f"flag compiled={compiled}", res)
        bad = 0
        for kind, out, pc in res:
            if kind != "ok": continue
            val, dumped = out
            ENGINE.solver.reset(); ENGINE.solver.add(*pc)
            if ENGINE.prove(z3.And(bv(val) == z3.ZeroExt(symrt.W-8, d2.items[0]), *[b8(x) == b8(y) for x, y in zip(d2.items, dumped.items)])) is not None: bad += 1
        print("  paths not proved:", bad, f"{time.time()-t:.2f}s")
    except Exception as e:
        traceback.print_exc()
