import sys
sys.path.insert(0, "/verif/probes")
import instr, builtins
_real_compile = builtins.compile
NCALLS = [0]
def dispatch(f, /, *a, **k):
    NCALLS[0] += 1
    if f is _real_compile and a and isinstance(a[0], str):
        tree = instr.transform_source(a[0], a[1] if len(a) > 1 else "<gen>")
        return _real_compile(tree, *a[1:], **k)
    return f(*a, **k)
instr.install(dispatch)
def pytest_sessionfinish(session, exitstatus):
    print("\nDISPATCHED CALLS:", NCALLS[0])
