"""Prototype symbolic runtime: z3-backed proxies + DFS path engine + call dispatcher models."""
from __future__ import annotations
import builtins, struct, sys, time, enum as _enum
import z3
import instr

import os
W = int(os.environ.get("SYMEX_W", "256"))
_real_compile = builtins.compile
_real_isinstance = builtins.isinstance
_real_len = builtins.len


class Inconclusive(BaseException):
    pass


class PathDone(BaseException):
    pass


class Engine:
    def __init__(self):
        self.solver = z3.Solver()
        self.trail = []      # list of [value, flipped?]
        self.pos = 0
        self.nvars = 0
        self.queries = 0
        self.solver_time = 0.0
        self.pc = []

    def fresh_bv(self, name, bits):
        self.nvars += 1
        return z3.BitVec(f"{name}", bits)

    def check(self, *extra):
        t = time.time()
        self.queries += 1
        r = self.solver.check(*extra)
        self.solver_time += time.time() - t
        return r

    def begin_path(self):
        self.pos = 0
        self.pc = []
        self.solver.reset()

    def decide(self, cond):
        cond = z3.simplify(cond)
        if z3.is_true(cond):
            return True
        if z3.is_false(cond):
            return False
        if self.pos < len(self.trail):
            v = self.trail[self.pos][0]
        else:
            can_t = self.check(cond) == z3.sat
            can_f = self.check(z3.Not(cond)) == z3.sat
            if can_t and can_f:
                v = True
                self.trail.append([True, False])
            elif can_t:
                v = True
                self.trail.append([True, True])
            elif can_f:
                v = False
                self.trail.append([False, True])
            else:
                raise Inconclusive("infeasible path")
        self.pos += 1
        c = cond if v else z3.Not(cond)
        self.pc.append(c)
        self.solver.add(c)
        return v

    def model_value(self, t):
        if self.check() != z3.sat:
            raise Inconclusive("infeasible at model_value")
        return self.solver.model().eval(t, model_completion=True).as_signed_long()

    def backtrack(self):
        while self.trail and self.trail[-1][1]:
            self.trail.pop()
        if not self.trail:
            return False
        self.trail[-1] = [not self.trail[-1][0], True]
        return True

    def explore(self, fn):
        """Run fn() once per feasible path. fn returns (ok_condition: z3 Bool or bool, info)."""
        results = []
        while True:
            self.begin_path()
            try:
                out = fn()
                results.append(("ok", out, list(self.pc)))
            except Inconclusive as e:
                results.append(("inconclusive", str(e), list(self.pc)))
            if not self.backtrack():
                break
        return results

    def prove(self, claim):
        """Under current path condition, is claim valid? returns None if valid else model."""
        if claim is True:
            return None
        if claim is False:
            claim = z3.BoolVal(False)
        r = self.check(z3.Not(claim))
        if r == z3.unsat:
            return None
        if r == z3.sat:
            return self.solver.model()
        raise Inconclusive("solver unknown")


ENGINE = Engine()


def bv(x):
    if type(x) is SInt:
        return x.t
    if type(x) is SInst:
        return bv(x._payload)
    if isinstance(x, bool):
        return z3.BitVecVal(int(x), W)
    if isinstance(x, int):
        return z3.BitVecVal(x, W)
    raise TypeError(f"not int-like: {type(x)}")


def is_sym(x, depth=2):
    if type(x) in (SInt, SBytes, SInst, SBool):
        return True
    if depth and type(x) in (list, tuple):
        return any(is_sym(i, depth - 1) for i in x)
    if depth and type(x) is dict:
        return any(is_sym(i, depth - 1) for i in x.values())
    return False


class SBool:
    def __init__(self, t):
        self.t = t
    def __bool__(self):
        return ENGINE.decide(self.t)


def mkbool(t):
    t = z3.simplify(t)
    if z3.is_true(t):
        return True
    if z3.is_false(t):
        return False
    return SBool(t)


class SInt:
    """Python int modelled as signed W-bit vector (overflow obligations omitted in prototype)."""
    __slots__ = ("t",)
    def __init__(self, t):
        self.t = t
    @property
    def __class__(self):
        return int
    def _bin(op):
        def f(self, other):
            if not _real_isinstance(other, (int, SInt, SInst)):
                return NotImplemented
            return mkint(op(self.t, bv(other)))
        def r(self, other):
            if not _real_isinstance(other, (int, SInt, SInst)):
                return NotImplemented
            return mkint(op(bv(other), self.t))
        return f, r
    __add__, __radd__ = _bin(lambda a, b: a + b)
    __sub__, __rsub__ = _bin(lambda a, b: a - b)
    __mul__, __rmul__ = _bin(lambda a, b: a * b)
    __floordiv__, __rfloordiv__ = _bin(lambda a, b: pyfloordiv(a, b))
    __mod__, __rmod__ = _bin(lambda a, b: pymod(a, b))
    __and__, __rand__ = _bin(lambda a, b: a & b)
    __or__, __ror__ = _bin(lambda a, b: a | b)
    __xor__, __rxor__ = _bin(lambda a, b: a ^ b)
    __lshift__, __rlshift__ = _bin(lambda a, b: a << b)
    __rshift__, __rrshift__ = _bin(lambda a, b: a >> b)  # arithmetic shift for signed BV in z3py
    def __neg__(self): return mkint(-self.t)
    def __invert__(self): return mkint(~self.t)
    def _cmp(op):
        def f(self, other):
            if not _real_isinstance(other, (int, SInt, SInst)):
                return NotImplemented
            return mkbool(op(self.t, bv(other)))
        return f
    __eq__ = _cmp(lambda a, b: a == b)
    __ne__ = _cmp(lambda a, b: a != b)
    __lt__ = _cmp(lambda a, b: a < b)
    __le__ = _cmp(lambda a, b: a <= b)
    __gt__ = _cmp(lambda a, b: a > b)
    __ge__ = _cmp(lambda a, b: a >= b)
    __hash__ = None
    def __bool__(self):
        return ENGINE.decide(self.t != 0)
    def __index__(self):
        return concretize(self)
    __int__ = __index__
    def __str__(self):
        return str(concretize(self))
    def __format__(self, spec):
        return format(concretize(self), spec)
    def to_bytes(self, length, byteorder="big", *, signed=False):
        lo, hi = (-(1 << (8 * length - 1)), (1 << (8 * length - 1)) - 1) if signed else (0, (1 << (8 * length)) - 1)
        fits = z3.And(self.t >= lo, self.t <= hi)
        if not ENGINE.decide(fits):
            raise OverflowError("int too big to convert")
        items = [mkbyte(z3.Extract(8 * i + 7, 8 * i, self.t)) for i in range(length)]
        if byteorder == "big":
            items.reverse()
        return SBytes(items)
    def bit_length(self):
        raise Inconclusive("bit_length on symbolic")


def pyfloordiv(a, b):
    q = a / b  # signed division truncating
    r = z3.SRem(a, b)
    return z3.If(z3.And(r != 0, (r < 0) != (b < 0)), q - 1, q)

def pymod(a, b):
    r = z3.SRem(a, b)
    return z3.If(z3.And(r != 0, (r < 0) != (b < 0)), r + b, r)

def mkint(t):
    t = z3.simplify(t)
    if z3.is_bv_value(t):
        return t.as_signed_long()
    return SInt(t)


def mkbyte(t):
    t = z3.simplify(t)
    if z3.is_bv_value(t):
        return t.as_long()
    return t


def from_bytes(sb, byteorder, signed):
    items = list(sb.items)
    if byteorder == "little":
        items.reverse()
    if not items:
        return 0
    terms = [z3.BitVecVal(i, 8) if isinstance(i, int) else i for i in items]
    t = z3.Concat(*terms) if len(terms) > 1 else terms[0]
    n = 8 * len(terms)
    t = z3.SignExt(W - n, t) if signed else z3.ZeroExt(W - n, t)
    return mkint(t)


class SBytes:
    def __init__(self, items):
        self.items = list(items)
    @property
    def __class__(self):
        return bytes
    def __len__(self):
        return _real_len(self.items)
    def __getitem__(self, i):
        if isinstance(i, slice):
            return SBytes(self.items[i])
        it = self.items[i]
        return it if isinstance(it, int) else SInt(z3.ZeroExt(W - 8, it))
    def __iter__(self):
        for k in range(len(self.items)):
            yield self[k]
    def __add__(self, other):
        return SBytes(self.items + tobytes_items(other))
    def __radd__(self, other):
        return SBytes(tobytes_items(other) + self.items)
    def __eq__(self, other):
        if not _real_isinstance(other, (bytes, bytearray, SBytes, SInst)):
            return NotImplemented
        o = tobytes_items(other)
        if len(o) != len(self.items):
            return False
        return mkbool(z3.And(*[b8(a) == b8(b) for a, b in zip(self.items, o)])) if o else True
    def __ne__(self, other):
        r = self.__eq__(other)
        if r is NotImplemented:
            return r
        return (not r) if isinstance(r, bool) else mkbool(z3.Not(r.t))
    __hash__ = None
    def __bool__(self):
        return len(self.items) > 0
    def __bytes__(self):
        raise Inconclusive("concretisation of symbolic bytes")
    def __repr__(self):
        return f"SBytes({self.items})"


def b8(x):
    return z3.BitVecVal(x, 8) if isinstance(x, int) else x


def tobytes_items(x):
    if type(x) is SBytes:
        return list(x.items)
    if type(x) is SInst:
        return tobytes_items(x._payload)
    if isinstance(x, (bytes, bytearray, list)):
        return list(x)
    raise TypeError(type(x))


class SInst:
    """Instance of a real (int|bytes) subclass `cls` whose payload is symbolic."""
    def __init__(self, cls, payload):
        object.__setattr__(self, "_cls", cls)
        object.__setattr__(self, "_payload", payload)
    @property
    def __class__(self):
        return self._cls
    def __getattr__(self, name):
        # fall back to the tagged class (descriptor protocol)
        cls = object.__getattribute__(self, "_cls")
        for k in cls.__mro__:
            if name in k.__dict__:
                a = k.__dict__[name]
                if k in (int, bytes, str, float, object):
                    return getattr(object.__getattribute__(self, "_payload"), name)
                if hasattr(a, "__get__"):
                    return a.__get__(self, cls)
                return a
        # metaclass attributes are not visible on instances
        raise AttributeError(name)
    def _fwd(name):
        def f(self, *a):
            return getattr(self._payload, name)(*a)
        return f
    for _n in ["__add__", "__radd__", "__sub__", "__rsub__", "__mul__", "__rmul__", "__and__", "__rand__", "__or__", "__ror__",
               "__xor__", "__rxor__", "__lshift__", "__rlshift__", "__rshift__", "__rrshift__", "__neg__", "__invert__",
               "__eq__", "__ne__", "__lt__", "__le__", "__gt__", "__ge__", "__bool__", "__len__", "__getitem__", "__iter__",
               "__index__", "__int__", "__bytes__", "__str__", "__format__"]:
        locals()[_n] = _fwd(_n)
    __hash__ = None
    def to_bytes(self, *a, **k):
        return self._payload.to_bytes(*a, **k)
    @property
    def value(self):
        return self.__dict__["_value_"] if "_value_" in self.__dict__ else AttributeError("value")
    @property
    def name(self):
        return self.__dict__.get("_name_")


class SymStream:
    def __init__(self, data, pos=0):
        self.data = data if type(data) is SBytes else SBytes(tobytes_items(data))
        self.pos = pos
        self.log = []
    def read(self, n=-1):
        if n is None or (isinstance(n, int) and n < 0):
            out = self.data[self.pos:]
        else:
            if type(n) in (SInt, SInst):
                n = concretize(n, upper=len(self.data) - self.pos + 1)
            out = self.data[self.pos:self.pos + n]
        self.log.append(("read", self.pos, len(out)))
        self.pos += len(out)
        return out
    def tell(self):
        return self.pos
    def seek(self, off, whence=0):
        if type(off) in (SInt, SInst):
            off = concretize(off, upper=1 << 16)
        self.pos = off if whence == 0 else (self.pos + off if whence == 1 else len(self.data) + off)
        return self.pos
    def write(self, b):
        items = tobytes_items(b)
        d = self.data.items
        if self.pos > len(d):
            d = d + [0] * (self.pos - len(d))
        self.data = SBytes(d[:self.pos] + items + d[self.pos + len(items):])
        self.pos += len(items)
        return len(items)
    def getvalue(self):
        return self.data


def concretize(x, upper=None, cap=80):
    """Fork over the feasible concrete values of a symbolic int (bounded number of alternatives)."""
    t = bv(x)
    if upper is not None:
        if not ENGINE.decide(z3.And(t >= 0, t <= upper)):
            # outside [0, upper]: keep symbolic sign only
            if ENGINE.decide(t < 0):
                v = ENGINE.model_value(t)
                if ENGINE.decide(t == v):
                    return v
                raise Inconclusive("many negative values")
            return upper + 1  # any value beyond the bound behaves identically for the caller (stream end)
    for _ in range(cap):
        v = ENGINE.model_value(t)
        if ENGINE.decide(t == v):
            return v
    raise Inconclusive("concretisation cap exceeded")


# ---------------------------------------------------------------- struct model
_CODES = {"b": (1, True), "B": (1, False), "h": (2, True), "H": (2, False), "i": (4, True), "I": (4, False),
          "l": (4, True), "L": (4, False), "q": (8, True), "Q": (8, False)}

def parse_fmt(fmt):
    order = "little" if fmt[0] == "<" else "big"
    assert fmt[0] in "<>!", fmt
    out, num = [], ""
    for ch in fmt[1:]:
        if ch.isdigit():
            num += ch
            continue
        n = int(num) if num else 1
        num = ""
        out.extend([ch] * n)
    return order, out

def model_unpack(st, data):
    order, codes = parse_fmt(st.format)
    if len(data) != st.size:
        raise struct.error("unpack requires a buffer of %d bytes" % st.size)
    pos, res = 0, []
    for ch in codes:
        if ch == "x":
            pos += 1
            continue
        size, signed = _CODES[ch]
        res.append(from_bytes(data[pos:pos + size], order, signed))
        pos += size
    return tuple(res)

def model_pack(st, *vals):
    order, codes = parse_fmt(st.format)
    out = SBytes([])
    vals = list(vals)
    for ch in codes:
        if ch == "x":
            out = out + b"\x00"
            continue
        size, signed = _CODES[ch]
        v = vals.pop(0)
        if type(v) is SInst:
            v = v._payload
        if type(v) is not SInt:
            v = SInt(z3.BitVecVal(int(v), W))
        try:
            out = out + v.to_bytes(size, order, signed=signed)
        except OverflowError:
            raise struct.error("argument out of range")
    return out


# ---------------------------------------------------------------- dispatcher
def dispatch(f, /, *a, **k):
    if f is _real_compile and a and isinstance(a[0], str):
        tree = instr.transform_source(a[0], a[1] if len(a) > 1 else "<gen>")
        return _real_compile(tree, *a[1:], **k)
    if f is builtins.bytes and len(a) == 1 and not k and type(a[0]) not in (SBytes, SInst, bytes, bytearray, memoryview, int, list, str) and hasattr(type(a[0]), "__bytes__"):
        return type(a[0]).__bytes__(a[0])
    if not (any(map(is_sym, a)) or any(map(is_sym, k.values()))):
        slf = getattr(f, "__self__", None)
        if slf is None or not is_sym(slf):
            return f(*a, **k)
    # --- symbolic arguments present
    if f is builtins.isinstance:
        return _real_isinstance(a[0], a[1])  # proxies expose __class__
    if f is builtins.len:
        return _real_len(a[0])
    if f is builtins.max or f is builtins.min:
        x, y = a
        c = (x >= y) if f is builtins.max else (x <= y)
        return x if c else y
    if f is builtins.ord:
        return a[0][0]
    if f is builtins.int and len(a) == 1 and type(a[0]) in (SInt, SInst):
        return a[0]._payload if type(a[0]) is SInst else a[0]
    if f is builtins.range:
        return range(*[concretize(x, upper=4096) if type(x) in (SInt, SInst) else x for x in a])
    if f is builtins.bytes and len(a) == 1:
        return SBytes(tobytes_items(a[0]))
    if f is builtins.hasattr or f is builtins.getattr or f is builtins.setattr or f is builtins.repr:
        return f(*a, **k)
    if f is object.__setattr__ or f is object.__getattribute__:
        return f(*a, **k)
    if f is builtins.bytes and len(a) == 1 and hasattr(type(a[0]), "__bytes__") and type(a[0]) not in (SBytes, SInst):
        return type(a[0]).__bytes__(a[0])
    if _real_isinstance(f, (type(_enum.EnumMeta.__call__), )) and False:
        pass
    slf = getattr(f, "__self__", None)
    name = getattr(f, "__name__", None)
    # C-level constructors of int/bytes subclasses
    if name == "from_bytes" and _real_isinstance(slf, type) and issubclass(slf, int):
        v = from_bytes(a[0], a[1], k.get("signed", False))
        return v if slf is int else SInst(slf, v if type(v) is SInt else SInt(z3.BitVecVal(v, W)))
    if f is int.__new__ or f is bytes.__new__:
        cls, val = a[0], a[1]
        if type(val) is SInst:
            val = val._payload
        return SInst(cls, val)
    if (f is type.__call__ and issubclass(a[0], _enum.IntFlag)) or (getattr(f, "__func__", None) is _enum.EnumMeta.__call__ and issubclass(f.__self__, _enum.IntFlag)):
        cls = a[0] if f is type.__call__ else f.__self__
        val = a[1] if f is type.__call__ else a[0]
        if type(val) is SInst:
            val = val._payload
        for m in cls.__members__.values():
            if val == m._value_:
                return m
        obj = SInst(cls, val)
        object.__setattr__(obj, "__dict__", {**obj.__dict__})
        obj._value_ = val
        obj._name_ = None
        return obj
    if f is type.__call__ and issubclass(a[0], _enum.Enum):
        return f(*a, **k)
    if f is type.__call__:
        if issubclass(a[0], (int, bytes)) and not issubclass(a[0], _enum.Enum) and len(a) == 2:
            val = a[1]
            if type(val) is SInst:
                val = val._payload
            return SInst(a[0], val)
        if not issubclass(a[0], (int, bytes, str, float)):
            return f(*a, **k)
    import io as _io
    if f is _io.BytesIO:
        return SymStream(a[0]) if a else SymStream([])
    if _real_isinstance(slf, struct.Struct):
        if name == "unpack":
            return model_unpack(slf, *a)
        if name == "pack":
            return model_pack(slf, *a)
    if _real_isinstance(slf, bytes) and name == "join":
        out = SBytes(list(slf) * 0)
        for i, part in enumerate(a[0]):
            out = out + part
        return out
    # python-level callables: just call
    import types as _t
    if _real_isinstance(f, (_t.FunctionType, _t.MethodType, type, )) or hasattr(f, "func"):
        return f(*a, **k)
    if _real_isinstance(slf, (SymStream, SInt, SBytes, SInst, list, dict)):
        return f(*a, **k)
    raise Inconclusive(f"unmodelled call {f!r} with symbolic args")


def install():
    instr.install(dispatch)
