import sys, time, faulthandler; faulthandler.dump_traceback_later(40, exit=True)
sys.path.insert(0, "/verif/probes")
import symrt, z3, builtins
symrt.install()
from symrt import ENGINE, SInt, Inconclusive, W, bv, mkint
# let len() of a type return a symbolic size
_old = symrt.dispatch
def dispatch(f, /, *a, **k):
    if f is builtins.len and len(a) == 1 and isinstance(a[0], type) and type(getattr(a[0], "size", None)) is SInt:
        return type(a[0]).__len__(a[0])
    return _old(f, *a, **k)
builtins.__symcall__ = dispatch
from dissect.cstruct import cstruct
from dissect.cstruct.types import Field, Structure, BaseType
from dissect.cstruct.types.structure import StructureMetaType

cs = cstruct()
K = 4
def run(align, alv):
    sizes = [z3.BitVec(f"s{i}", W) for i in range(K)]
    als = [z3.BitVecVal(v, W) for v in alv]
    pre = []
    for s, a in zip(sizes, als):
        pre += [s >= 0, s <= 4096]
    def path():
        ENGINE.solver.add(*pre); ENGINE.pc.extend(pre)
        fields = []
        for i in range(K):
            T = cs._make_type(f"T{i}", (BaseType,), SInt(sizes[i]), alignment=alv[i])
            fields.append(Field(f"f{i}", T))
        size, alignment = StructureMetaType._calculate_size_and_offsets(Structure, fields, align)
        return [f.offset for f in fields], size, alignment
    res = ENGINE.explore(path)
    print("align", align, "paths", len(res))
    for kind, out, pc in res:
        if kind != "ok": print("  ", kind, out); continue
        offs, size, alignment = out
        ENGINE.solver.reset(); ENGINE.solver.add(*pc)
        # reference C layout
        cur = z3.BitVecVal(0, W); mx = z3.BitVecVal(0, W); ok = []
        for i in range(K):
            if align:
                cur = z3.If(z3.URem(cur, als[i]) == 0, cur, cur + (als[i] - z3.URem(cur, als[i])))
            ok.append(bv(offs[i]) == cur)
            cur = cur + sizes[i]
            mx = z3.If(als[i] > mx, als[i], mx)
        if align:
            cur = z3.If(z3.URem(cur, mx) == 0, cur, cur + (mx - z3.URem(cur, mx)))
        ok.append(bv(size) == cur); ok.append(bv(alignment) == mx)
        t = time.time()
        m = ENGINE.prove(z3.And(*ok))
        print("   layout == reference:", m is None, f"{time.time()-t:.2f}s")
import itertools
t0=time.time(); n=0
for alv in itertools.product((1,2,4,8,16), repeat=K):
    if n % 125 == 0: run(True, alv)
    n+=1
print("total", time.time()-t0, "queries", ENGINE.queries, "solver_time", ENGINE.solver_time)
