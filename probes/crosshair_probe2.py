from __future__ import annotations
from dissect.cstruct import cstruct
from dissect.cstruct.bitbuffer import BitBuffer
from dissect.cstruct.expression import Expression

cs_le = cstruct()


class FakeType:
    size = 2
    last = None
    @classmethod
    def _read(cls, stream):
        return stream.value
    @classmethod
    def _write(cls, stream, v):
        stream.out.append(v)


class S:
    def __init__(self, value=0):
        self.value = value
        self.out = []


def p_bits_le(unit: int) -> int:
    """
    pre: 0 <= unit < 65536
    post: _ == unit
    """
    bb = BitBuffer(S(unit), "<")
    a = bb.read(FakeType, 3)
    b = bb.read(FakeType, 9)
    c = bb.read(FakeType, 4)
    return a | (b << 3) | (c << 12)


def p_bits_be(unit: int) -> int:
    """
    pre: 0 <= unit < 65536
    post: _ == unit
    """
    bb = BitBuffer(S(unit), ">")
    a = bb.read(FakeType, 3)
    b = bb.read(FakeType, 9)
    c = bb.read(FakeType, 4)
    return (a << 13) | (b << 4) | c


def p_bits_write(a: int, b: int, c: int) -> int:
    """
    pre: 0 <= a < 8 and 0 <= b < 512 and 0 <= c < 16
    post: _ == a | (b << 3) | (c << 12)
    """
    s = S()
    bb = BitBuffer(s, "<")
    bb.write(FakeType, a, 3)
    bb.write(FakeType, b, 9)
    bb.write(FakeType, c, 4)
    return s.out[0]


E1 = Expression(cs_le, "a + b * c - d")
def p_expr(a: int, b: int, c: int, d: int) -> int:
    """
    post: _ == a + b * c - d
    """
    return E1.evaluate({"a": a, "b": b, "c": c, "d": d})

E2 = Expression(cs_le, "a | b & c ^ d << 2")
def p_expr2(a: int, b: int, c: int, d: int) -> int:
    """
    pre: 0 <= a < 256 and 0 <= b < 256 and 0 <= c < 256 and 0 <= d < 256
    post: _ == (a | ((b & c) ^ (d << 2)))
    """
    return E2.evaluate({"a": a, "b": b, "c": c, "d": d})

def p_align(off: int, al: int) -> int:
    """
    pre: 0 <= off < 4096 and al in (1, 2, 4, 8, 16)
    post: _ % al == 0 and off <= _ < off + al
    """
    return off + (-off & (al - 1))
