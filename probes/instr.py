"""Prototype: import the real dissect.cstruct sources with every call site routed through a dispatcher."""
import ast, sys, builtins, importlib.abc, importlib.machinery, importlib.util, os

REPO = os.environ.get("SYMEX_REPO", "/repo")
DISPATCH = "__symcall__"
SKIP_NAMES = {"super", "locals", "globals", "vars", "eval", "exec", "dir"}

class CallRewriter(ast.NodeTransformer):
    def visit_Call(self, node):
        self.generic_visit(node)
        if isinstance(node.func, ast.Name) and node.func.id in SKIP_NAMES:
            return node
        new = ast.Call(func=ast.Name(id=DISPATCH, ctx=ast.Load()), args=[node.func] + node.args, keywords=node.keywords)
        return ast.copy_location(new, node)

def transform_source(source, filename):
    tree = ast.parse(source, filename)
    tree = CallRewriter().visit(tree)
    ast.fix_missing_locations(tree)
    return tree

class Loader(importlib.machinery.SourceFileLoader):
    def source_to_code(self, data, path, *, _optimize=-1):
        tree = transform_source(data, path)
        return compile(tree, path, "exec", dont_inherit=True, optimize=_optimize)
    def get_code(self, fullname):  # never use .pyc
        path = self.get_filename(fullname)
        return self.source_to_code(self.get_data(path), path)

class Finder(importlib.abc.MetaPathFinder):
    def find_spec(self, fullname, path, target=None):
        if not (fullname == "dissect.cstruct" or fullname.startswith("dissect.cstruct.")):
            return None
        rel = fullname.split(".")
        base = os.path.join(REPO, *rel)
        if os.path.isdir(base):
            fn = os.path.join(base, "__init__.py")
            return importlib.util.spec_from_file_location(fullname, fn, loader=Loader(fullname, fn), submodule_search_locations=[base])
        fn = base + ".py"
        if os.path.exists(fn):
            return importlib.util.spec_from_file_location(fullname, fn, loader=Loader(fullname, fn))
        return None

def install(dispatch):
    setattr(builtins, DISPATCH, dispatch)
    sys.meta_path.insert(0, Finder())
