import sys, time, traceback
sys.path.insert(0, "/verif/probes")
import symrt, z3
symrt.install()
from symrt import ENGINE, SymStream, SBytes, Inconclusive
from dissect.cstruct import cstruct

CASES = {
 "bitfield": ("struct test { uint16 a:3; uint16 b:9; uint16 c:4; uint8 d; uint32 e:8; uint32 f:24; };", 9),
 "bitfield_signed": ("struct test { int8 a:4; int8 b:4; int16 c:16; };", 5),
 "leb": ("struct test { uleb128 a; ileb128 b; uint8 c; };", 6),
 "dyn": ("struct test { uint8 n; uint16 d[n]; uint8 t; };", 7),
 "expr": ("struct test { uint8 n; char d[(n & 1) * 2 + 1]; uint8 t; };", 6),
 "nullterm": ("struct test { char s[]; uint16 w[]; uint8 t; };", 8),
 "enum": ("enum E : uint8 { A = 1, B, C = 7 }; struct test { E e; E arr[2]; uint8 t; };", 6),
 "flag": ("flag F : uint8 { A, B, C }; struct test { F e; uint8 t; };", 4),
 "ptr": ("struct test { uint8 a; uint16 *p; uint8 t; };", 12),
 "union": ("union test { uint32 a; struct { uint8 x; uint8 y; } s; char c[3]; };", 6),
 "eofarr": ("struct test { uint8 a; uint16 d[EOF]; };", 6),
 "wchar": ("struct test { wchar w[2]; uint8 t; };", 7),
 "float": ("struct test { float f; double d; };", 14),
}

def run(name, defn, nbytes, compiled, endian):
    cs = cstruct(endian=endian, pointer="uint64")
    cs.load(defn, compiled=compiled)
    T = cs.test
    data = SBytes([z3.BitVec(f"b{i}", 8) for i in range(nbytes)])
    def path():
        s = SymStream(data)
        try:
            obj = T.read(s)
        except EOFError:
            return ("eof", s.tell(), None)
        consumed = s.tell()
        out = SymStream([])
        T.write(out, obj)
        return ("val", consumed, out.getvalue())
    t = time.time(); q0 = ENGINE.queries
    try:
        res = ENGINE.explore(path)
    except Exception as e:
        tb = traceback.extract_tb(e.__traceback__)
        print(f"{name:16s} c={compiled} {endian}  ERROR {type(e).__name__}: {e}   @ {tb[-1].filename.split('/')[-1]}:{tb[-1].lineno}")
        return
    kinds = {}
    bad = 0
    for kind, out, pc in res:
        if kind != "ok":
            kinds[out[:60]] = kinds.get(out[:60], 0) + 1; continue
        k, consumed, dumped = out
        kinds[k] = kinds.get(k, 0) + 1
        if k == "val":
            ENGINE.solver.reset(); ENGINE.solver.add(*pc)
            if len(dumped) != consumed: bad += 1; continue
            for i in range(consumed):
                if ENGINE.prove(symrt.b8(data.items[i]) == symrt.b8(dumped.items[i])) is not None:
                    bad += 1; break
    print(f"{name:16s} c={compiled} {endian} compiled={T.__compiled__} paths={len(res)} {kinds} paths_with_diff={bad} q={ENGINE.queries-q0} wall={time.time()-t:.2f}s")

only = sys.argv[1:] 
for name, (defn, n) in CASES.items():
    if only and name not in only: continue
    for compiled in (False, True):
        for endian in ("<", ">"):
            run(name, defn, n, compiled, endian)
