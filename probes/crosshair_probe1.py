from __future__ import annotations
from dissect.cstruct import cstruct

cs_le = cstruct()
cs_be = cstruct(endian=">")


class PyStream:
    """Minimal pure-python seekable stream."""
    def __init__(self, data: bytes, pos: int = 0):
        self.data = data
        self.pos = pos
    def read(self, n: int = -1) -> bytes:
        if n is None or n < 0:
            out = self.data[self.pos:]
        else:
            out = self.data[self.pos:self.pos + n]
        self.pos += len(out)
        return out
    def tell(self) -> int:
        return self.pos
    def seek(self, off: int, whence: int = 0) -> int:
        if whence == 0:
            self.pos = off
        elif whence == 1:
            self.pos += off
        else:
            self.pos = len(self.data) + off
        return self.pos
    def write(self, b) -> int:
        b = bytes(b)
        self.data = self.data[:self.pos] + b + self.data[self.pos + len(b):]
        self.pos += len(b)
        return len(b)


def p_from_bytes(b: bytes) -> int:
    """
    pre: len(b) == 3
    post: 0 <= _ < 2**24
    """
    return int.from_bytes(b, "little")


def p_int24_read(b: bytes) -> int:
    """
    pre: len(b) == 3
    post: _ == b[0] + (b[1] << 8) + (b[2] << 16)
    """
    return int(cs_le.uint24._read(PyStream(b)))


def p_int24_signed_read(b: bytes) -> int:
    """
    pre: len(b) == 3
    post: -2**23 <= _ < 2**23
    """
    return int(cs_le.int24._read(PyStream(b)))


def p_int24_roundtrip(v: int) -> int:
    """
    pre: 0 <= v < 2**24
    post: _ == v
    """
    s = PyStream(b"")
    cs_le.uint24._write(s, v)
    s.seek(0)
    return int(cs_le.uint24._read(s))


def p_leb_roundtrip(v: int) -> int:
    """
    pre: 0 <= v < 2**21
    post: _ == v
    """
    s = PyStream(b"")
    cs_le.uleb128._write(s, v)
    s.seek(0)
    return int(cs_le.uleb128._read(s))


def p_ileb_roundtrip(v: int) -> int:
    """
    pre: -2**20 <= v < 2**20
    post: _ == v
    """
    s = PyStream(b"")
    cs_le.ileb128._write(s, v)
    s.seek(0)
    return int(cs_le.ileb128._read(s))
