import sys, threading, time, faulthandler; faulthandler.dump_traceback_later(100, exit=True)
from dissect.cstruct import cstruct
from dissect.cstruct.expression import Expression
import dissect.cstruct.expression as X
cs = cstruct()
TARGET = X.__file__

class Sched:
    """Run N thread bodies one at a time; at each 'line' event in TARGET the running thread may be preempted.
    `choose(k, runnable)` decides who runs next: the schedule is an explicit sequence of choices."""
    def __init__(self, bodies, choices, max_preempt):
        self.bodies, self.choices, self.ci = bodies, choices, 0
        self.max_preempt, self.preempts = max_preempt, 0
        self.sems = [threading.Semaphore(0) for _ in bodies]
        self.done = [False] * len(bodies); self.results = [None] * len(bodies)
        self.main = threading.Semaphore(0); self.cur = None; self.points = 0; self.trace = []
    def pick(self, runnable, cur):
        # choice 0 = continue current (if runnable), else index into others
        opts = ([cur] if cur in runnable else []) + [r for r in runnable if r != cur]
        if cur in runnable and self.preempts >= self.max_preempt:
            return cur
        if self.ci < len(self.choices): c = self.choices[self.ci]
        else: c = 0; self.choices.append(0)
        self.ci += 1
        self.trace.append(len(opts))
        nxt = opts[c]
        if cur in runnable and nxt != cur: self.preempts += 1
        return nxt
    def tracer(self, i):
        def local(frame, event, arg):
            if event == "line" and frame.f_code.co_filename == TARGET:
                self.points += 1
                nxt = self.pick([j for j in range(len(self.bodies)) if not self.done[j]], i)
                if nxt != i:
                    self.sems[nxt].release(); self.sems[i].acquire()
            return local
        def glob(frame, event, arg):
            return local if frame.f_code.co_filename == TARGET else None
        return glob
    def run(self):
        def wrap(i):
            self.sems[i].acquire()
            sys.settrace(self.tracer(i))
            try: self.results[i] = ("ok", self.bodies[i]())
            except Exception as e: self.results[i] = ("exc", type(e).__name__, str(e))
            finally:
                sys.settrace(None); self.done[i] = True
                rest = [j for j in range(len(self.bodies)) if not self.done[j]]
                if rest: self.sems[self.pick(rest, i)].release()
                else: self.main.release()
        ths = [threading.Thread(target=wrap, args=(i,)) for i in range(len(self.bodies))]
        for t in ths: t.start()
        self.sems[0].release(); self.main.acquire()
        for t in ths: t.join()
        return self.results

E = Expression(cs, "a * 2 + b")
seq = [E.evaluate({"a": 3, "b": 1}), E.evaluate({"a": 10, "b": 5})]
# DFS over schedules with <=1 preemption
stack = [[]]; n = 0; bad = 0; first_bad = None; t0 = time.time()
while stack:
    prefix = stack.pop()
    s = Sched([lambda: E.evaluate({"a": 3, "b": 1}), lambda: E.evaluate({"a": 10, "b": 5})], list(prefix), max_preempt=1)
    res = s.run(); n += 1
    if res != [("ok", seq[0]), ("ok", seq[1])]:
        bad += 1
        if first_bad is None: first_bad = (s.choices[:s.ci], res)
    # expand: for each choice position beyond prefix, alternatives
    for k in range(len(prefix), s.ci):
        for alt in range(1, s.trace[k]):
            stack.append(s.choices[:k] + [alt])
print("schedules", n, "violating", bad, "time %.2fs" % (time.time()-t0))
print("first violating schedule:", first_bad)
