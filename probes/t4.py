import sys, time, faulthandler; faulthandler.dump_traceback_later(100, exit=True)
sys.path.insert(0, "/verif/probes")
import symrt, z3
symrt.install()
from symrt import ENGINE, SInt, W, bv
from dissect.cstruct import cstruct
from dissect.cstruct.expression import Expression
cs = cstruct()

PREC = [["|"], ["^"], ["&"], ["<<", ">>"], ["+", "-"], ["*", "/", "%"]]
OPS = {"|": lambda a,b: a|b, "^": lambda a,b: a^b, "&": lambda a,b: a&b, "<<": lambda a,b: a<<b, ">>": lambda a,b: a>>b,
       "+": lambda a,b: a+b, "-": lambda a,b: a-b, "*": lambda a,b: a*b, "/": lambda a,b: a//b, "%": lambda a,b: a%b}
def ref_eval(tokens, env, prec=PREC):
    pos = [0]
    def peek(): return tokens[pos[0]] if pos[0] < len(tokens) else None
    def nxt(): pos[0] += 1; return tokens[pos[0]-1]
    def unary():
        t = nxt()
        if t == "-": return -unary()
        if t == "~": return ~unary()
        if t == "(":
            v = level(0); assert nxt() == ")"; return v
        return env[t] if t in env else int(t, 0)
    def level(i):
        if i == len(prec): return unary()
        v = level(i+1)
        while peek() in prec[i]:
            op = nxt(); v = OPS[op](v, level(i+1))
        return v
    return level(0)

exprs = ["a + b * c - d", "a - b - c", "a | b & c ^ d << 2", "a << b + 1", "-a * ~b", "a / b * c", "a % b + c * (d - a)", "a - -b", "~a & b | c", "a >> 1 >> b"]
vars_ = {n: z3.BitVec(n, W) for n in "abcd"}
pre = [z3.And(v >= 0, v < 256) for v in vars_.values()] + [vars_["b"] > 0, vars_["b"] < 8]
WRONG = [["|"], ["&"], ["^"], ["<<", ">>"], ["+", "-"], ["*", "/", "%"]]   # swapped & and ^ : a "mutant" reference
for wrong in (False, True):
    for text in exprs:
        toks = text.replace("(", " ( ").replace(")", " ) ").replace("~", " ~ ").replace("-", " - ").split()
        E = Expression(cs, text)
        def path():
            ENGINE.solver.add(*pre)
            env = {n: SInt(v) for n, v in vars_.items()}
            return E.evaluate(env), ref_eval(toks, env, WRONG if wrong else PREC)
        t = time.time()
        res = ENGINE.explore(path)
        for kind, out, pc in res:
            if kind != "ok": print(text, kind, out); continue
            got, exp = out
            ENGINE.solver.reset(); ENGINE.solver.add(*pre); ENGINE.solver.add(*pc)
            m = ENGINE.prove(bv(got) == bv(exp))
            print(f"wrongref={wrong} {text:24s} paths={len(res)} equal={'proved' if m is None else 'CEX ' + str({n: m.eval(v, model_completion=True).as_signed_long() for n, v in vars_.items()})}  {time.time()-t:.2f}s")
