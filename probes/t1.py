import sys, time
sys.path.insert(0, "/verif/probes")
import symrt, z3
symrt.install()
from symrt import ENGINE, SymStream, SBytes, Inconclusive
from dissect.cstruct import cstruct

DEF = """
struct inner { uint8 x; int16 y; };
struct test {
    uint8   a;
    uint32  b;
    int24   c;
    char    d[3];
    inner   e;
    uint16  f[2];
    uint64  g;
};
"""

def run(compiled, endian, align):
    cs = cstruct(endian=endian)
    cs.load(DEF, compiled=compiled, align=align)
    T = cs.test
    n = len(T)
    data = SBytes([z3.BitVec(f"b{i}", 8) for i in range(n + 2)])
    def path():
        s = SymStream(data)
        obj = T.read(s)
        consumed = s.tell()
        out = SymStream([])
        T.write(out, obj)
        dumped = out.getvalue()
        return consumed, dumped, obj
    t = time.time()
    res = ENGINE.explore(path)
    print(f"compiled={compiled} endian={endian} align={align} size={n} compiled_flag={T.__compiled__} paths={len(res)}")
    for kind, out, pc in res:
        if kind != "ok":
            print("  ", kind, out); continue
        consumed, dumped, obj = out
        assert consumed == n and len(dumped) == n, (consumed, len(dumped))
        # mask: data bytes of fields must match
        ENGINE.solver.reset(); ENGINE.solver.add(*pc)
        diffs = []
        for i in range(n):
            a, b = symrt.b8(data.items[i]), symrt.b8(dumped.items[i])
            m = ENGINE.prove(a == b)
            if m is not None:
                diffs.append(i)
        print("   byte positions not provably equal:", diffs, " obj.b =", obj.b._payload.t if hasattr(obj.b, "_payload") else obj.b)
    print(f"   queries={ENGINE.queries} solver_time={ENGINE.solver_time:.3f}s wall={time.time()-t:.3f}s")

for compiled in (False, True):
    for endian in ("<", ">"):
        for align in (False, True):
            run(compiled, endian, align)
