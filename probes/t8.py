"""Throughput probe: C02-style byte fidelity over all 1-2 field definitions from a small alphabet."""
import sys, time, itertools, os, faulthandler
sys.path.insert(0, "/verif/probes")
KINDS = ["uint8 {n}", "int16 {n}", "uint32 {n}", "int64 {n}", "uint24 {n}", "int48 {n}", "uint128 {n}", "char {n}", "char {n}[3]",
         "uint16 {n}[2]", "int24 {n}[2]", "E {n}", "E {n}[2]", "F {n}", "inner {n}", "inner {n}[2]", "uint16 *{n}", "uint8 {n}:3", "uint8 {n}:5",
         "uint16 {n}:9", "int32 {n}:7", "E {n}:4", "char {n}[]", "uint16 {n}[]", "uint8 {n}[EOF]"]
PRE = "enum E : uint16 { A = 1, B, C = 7 }; flag F : uint8 { X, Y }; struct inner { uint8 x; int16 y; };\n"

def work(job):
    import symrt, z3
    if not getattr(work, "inst", False):
        symrt.install(); work.inst = True
    from symrt import ENGINE, SymStream, SBytes, b8
    from dissect.cstruct import cstruct
    kinds, endian, align, compiled = job
    body = " ".join(k.format(n=f"f{i}") + ";" for i, k in enumerate(kinds))
    defn = PRE + "struct test { " + body + " };"
    t = time.time(); q0 = ENGINE.queries
    try:
        cs = cstruct(endian=endian); cs.load(defn, compiled=compiled, align=align)
    except Exception as e:
        return (body, "loaderr:" + type(e).__name__, 0, 0, 0.0)
    T = cs.test
    n = 14
    data = SBytes([z3.BitVec(f"b{i}", 8) for i in range(n)])
    def path():
        s = SymStream(data)
        try: obj = T.read(s)
        except EOFError: return ("eof", 0, None)
        c = s.tell(); out = SymStream([]); T.write(out, obj)
        return ("val", c, out.getvalue())
    try:
        res = ENGINE.explore(path)
    except Exception as e:
        return (body, f"EXC:{type(e).__name__}:{str(e)[:60]}", 0, 0, time.time() - t)
    status = "ok"; npaths = len(res)
    for kind, out, pc in res:
        if kind != "ok": status = "inconclusive:" + out[:50]; continue
        k, c, dumped = out
        if k != "val": continue
        ENGINE.solver.reset(); ENGINE.solver.add(*pc)
        if len(dumped) != c: status = "LENDIFF"; break
    return (body, status, npaths, ENGINE.queries - q0, time.time() - t)

if __name__ == "__main__":
    from multiprocessing import Pool
    jobs = []
    for k in range(1, 3):
        for kinds in itertools.product(KINDS, repeat=k):
            if any("[EOF]" in x for x in kinds[:-1]): continue
            for endian in "<>":
                for align in (False, True):
                    for compiled in (False, True):
                        jobs.append((kinds, endian, align, compiled))
    t0 = time.time()
    with Pool(16) as p:
        out = p.map(work, jobs, chunksize=20)
    wall = time.time() - t0
    from collections import Counter
    c = Counter(s.split(":")[0] + (":" + s.split(":", 1)[1][:40] if ":" in s else "") for _, s, *_ in out)
    print("jobs", len(jobs), "wall %.1fs" % wall, "cpu %.1fs" % sum(o[4] for o in out), "paths", sum(o[2] for o in out), "queries", sum(o[3] for o in out))
    for k, v in c.most_common(15): print("  ", v, k)
    slow = sorted(out, key=lambda o: -o[4])[:5]
    for o in slow: print("  slow:", o[0][:70], o[1][:30], o[2], "paths", "%.2fs" % o[4])
    shown = set()
    for o in out:
        key = o[1][:40]
        if o[1] not in ("ok",) and key not in shown:
            shown.add(key); print("  e.g.", o[0][:80], "=>", o[1])
