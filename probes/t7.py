"""C09 probe: stream whose start offset p is a solver variable."""
import sys, time, faulthandler; faulthandler.dump_traceback_later(100, exit=True)
sys.path.insert(0, "/verif/probes")
import symrt, z3
symrt.install()
from symrt import ENGINE, SymStream, SBytes, SInt, bv, b8, mkint, concretize
from dissect.cstruct import cstruct

class BasedStream(SymStream):
    """position = base (symbolic) + rel (concrete)"""
    def __init__(self, data, base):
        super().__init__(data); self.base = base
    def tell(self):
        return mkint(bv(self.base) + self.pos)
    def seek(self, off, whence=0):
        if whence == 0:
            rel = mkint(bv(off) - bv(self.base))
            if type(rel) is not int:
                rel = concretize(rel)
            self.pos = rel
        elif whence == 1:
            if type(off) is not int:
                off = concretize(off)
            self.pos += off
        else:
            raise NotImplementedError
        return self.tell()

DEF = """
struct inner { uint8 x; uint32 y; };
struct test { uint8 a; uint16 n:4; uint16 m:12; inner e; uint8 k; uint16 d[k & 1]; uint64 g; };
"""
for compiled in (False, True):
  for align in (False, True):
    cs = cstruct(); cs.load(DEF, compiled=compiled, align=align)
    T = cs.test
    N = 40
    data = SBytes([z3.BitVec(f"b{i}", 8) for i in range(N)])
    q = z3.BitVec("q", symrt.W)
    A = T.alignment if align else 1
    def path():
        ENGINE.solver.add(q >= 0, q < 1 << 20)
        s0 = SymStream(data); v0 = T.read(s0); end0 = s0.tell()
        s1 = BasedStream(data, SInt(q * A)); v1 = T.read(s1)
        return v0, end0, v1, s1.tell(), s1.pos
    t = time.time(); res = ENGINE.explore(path)
    ok = 0
    for kind, out, pc in res:
        if kind != "ok": print("   ", kind, out); continue
        v0, end0, v1, tell1, pos1 = out
        ENGINE.solver.reset(); ENGINE.solver.add(*pc); ENGINE.solver.add(q >= 0, q < 1 << 20)
        claims = [bv(getattr(v0, f)) == bv(getattr(v1, f)) for f in ("a", "n", "m", "k", "g")]
        claims += [bv(v0.e.y) == bv(v1.e.y), bv(tell1) == q * A + end0]
        if len(v0.d) != len(v1.d): claims.append(z3.BoolVal(False))
        claims += [bv(x) == bv(y) for x, y in zip(v0.d, v1.d)]
        if ENGINE.prove(z3.And(*claims)) is None: ok += 1
    print(f"compiled={compiled} align={align} paths={len(res)} proved={ok} wall={time.time()-t:.2f}s")
