#!/usr/bin/env python3
"""Regenerates MANIFEST.json from the table below (kept by hand)."""
import json

CHECKS = {
 "C01": ("parse(dumps(v)) == v and misfit rejection, decided by z3 for all inputs per definition",
         "bounded symbolic execution of the real readers/writers (interpreted and generated) over z3 bit-vector terms; per path the round-trip and range obligations are discharged by the solver for every input/value within the stated bounds; counterexamples replayed on the plain library",
         "5"),
 "C02": ("dumps(parse(b)) vs b under an independent layout mask, decided by z3 for all input bytes per definition",
         "as C01; oracle = independent reference parser (vf/refmodel.py) giving the data-bit mask; all byte-level obligations per path discharged by z3",
         "5"),
 "C03": ("generated reader vs interpreted reader on the same symbolic buffer (differential), decided by z3",
         "both readers of the same definition executed symbolically on one symbolic buffer inside one path condition; value, size, position and outcome equality discharged by z3; start offset symbolic as well",
         "5"),
 "C04": ("the real layout computation executed on members with SYMBOLIC sizes; C alignment rules as z3 obligations; per-definition agreement of len/sizeof/offsets/read/write sizes",
         "the real _calculate_size_and_offsets of structures and unions is executed on members whose sizes are solver variables (alignments enumerated), the C layout rules are asserted declaratively and discharged by z3; plus, per enumerated fixed-size definition, agreement with an independent reference layout (cross-checked against ctypes) and with the bytes consumed/produced on every path of a symbolic parse",
         "5"),
 "C05": ("every scalar codec vs a reference two's-complement/LEB128/UTF-16 term for all input bytes and all integers, decided by z3",
         "each built-in scalar type and alias is executed on symbolic bytes / a symbolic integer and compared by z3 with reference encode/decode terms, LEB128 incl. well-formedness and minimality; endianness switch histories on loaded (compiled) structures",
         "5"),
 "C06": ("bit-field reader/writer vs an independent bit-slicing reference over all unit contents and all fitting values, decided by z3",
         "enumerated bit-field width/storage sequences (incl. straddling ones) x endian x alignment x reader; unit contents and written values symbolic; extraction, range, unit allocation, rejection and write-inverse obligations discharged by z3",
         "5"),
 "C10": ("Expression.evaluate vs an independent precedence-climbing reference with symbolic identifier values, decided by z3",
         "every well-formed token sequence up to a bounded length goes through the real tokenizer and shunting-yard evaluator with symbolic identifier values; equality with the reference evaluator's term, repeated evaluation with other contexts and fresh-object equality are discharged by z3; callers (#define, enum values, array lengths) driven with the same expressions",
         "5"),
 "C07": ("library parse vs an independent reference parser for every array form on symbolic input, decided by z3",
         "element type x length form x reader definitions are parsed from symbolic bytes by the real readers and by an independent reference parser (own expression evaluator); counts, order, values, stream position and the allowed EOF outcomes are asserted per path and discharged by z3; write refusal with engine-chosen list lengths",
         "5"),
 "C08": ("every cut point and every injected read fault of a symbolic input inside one path condition with the complete parse, decided by z3",
         "for each definition the complete symbolic input and all of its prefixes are parsed in one path condition; 'error when the reference extent is cut, else value equal to the complete parse' is discharged by z3; read faults (short read / OSError at the j-th read, j an engine decision variable) and no-residue re-parses likewise",
         "5"),
 "C09": ("parse at a SYMBOLIC start offset p vs parse at 0; input kinds and call forms as differential obligations, decided by z3",
         "the stream's start offset is a solver variable p (aligned), bytes before p are unconstrained symbols: value, recorded sizes and final position p+size are proved equal to the parse at offset 0 for every p; independence from trailing bytes; consecutive parses; bytes/bytearray/memoryview/stream x T(x)/read/reads/cs.read differential",
         "5"),
 "C11": ("union reads and assignment histories vs a tracked reference buffer, assigned member = engine decision, values symbolic, decided by z3",
         "the real Union.__setattr__/_rebuild/_update/_proxify/UnionProxy code runs on symbolic union bytes and symbolic assigned values; which member or nested field is assigned is an engine decision variable; after every step all members and the dump are compared by z3 with a reference buffer (old bytes + reference encoding of the member)",
         "5"),
 "C12": ("enum/flag value preservation, equality/hash congruence and member numbering with SYMBOLIC explicit values, decided by z3",
         "every underlying value (symbolic, whole range) through the real enum machinery as scalar/array/struct member; ==/!=/hash over pairs of symbolic values and two classes (hash as an uninterpreted function); the real TokenParser._enum executed with symbolic constants so auto-numbering (previous+1 / next power of two) is proved for all values",
         "5"),
 "C16": ("pointer width/value/dereference/arithmetic with a SYMBOLIC address over a symbolic stream, decided by z3",
         "the pointer value read from symbolic bytes is a solver term; dereference is explored for every in-range address (paths) and one beyond-end class, compared with an independent parse of the target at that offset; position restoration, caching (read log), null handling, arithmetic and write range obligations discharged by z3",
         "5"),
 "C17": ("generated __eq__/__hash__/__bool__/__init__ on instances whose fields are all symbolic; single-field assignment locality on dumps, decided by z3",
         "the patched code templates run natively on symbolic field values of two instances (and of classes sharing the template); equality <=> all fields equal, hash congruence (uninterpreted function), truthiness, constructor forms and byte-locality of a symbolic single-field assignment (field = engine decision) are discharged by z3",
         "5"),
 "C14": ("operation histories (engine-chosen) with symbolic written values; final default/parse state vs fresh universe and reference, decided by z3",
         "histories of construct/mutate/parse/fail/dump/second-cstruct operations are engine decision variables, written values and parsed bytes are symbolic; that a later default instance is zero, that earlier instances are unchanged and that a later parse equals a fresh universe's and the reference's is discharged by z3 (aliasing shows up as a term over another instance's variable)",
         "5"),
 "C15": ("thread schedule as engine decision variables (controlled scheduler over real threads) combined with symbolic data, decided by z3",
         "real threads run the real readers under a scheduler that hands over only at line events of repository code; which thread runs next at every switch point is an unconstrained engine decision (bounded pre-emptions), data bytes are symbolic; per schedule path z3 proves each thread's result equal to its sequential result for all data; violating schedules are replayed deterministically on the plain library",
         "5"),
 "C18": ("every split of a member sequence into add_field/commit batches (engine decision) vs the one-shot class on symbolic input, decided by z3",
         "the real add_field/start_update/commit/_update_fields (and recompilation) are driven with engine-chosen batch boundaries; layout signature, reader kind, generated source, parse on symbolic bytes (all paths), dump and generated methods are compared with the one-shot class; forward self-reference through a pointer vs its flat equivalent",
         "5"),
 "C13": ("alias tables with engine-chosen targets; trivia/order variants of definition texts compared by layout and by parse/dump of symbolic bytes (z3)",
         "(a) the real add_type/resolve/__getattr__ on every alias table over a small name universe (targets are engine decisions: chains, cycles, dangling names, re-declaration); (b) every single trivia insertion at every token boundary and every dependency-respecting order of a 9-text corpus: both texts are loaded by the real parser and the resulting types compared by name table, constants, layout signature and, on symbolic input bytes, parse and dump equality decided by z3. The trivia characters themselves are enumerated, not solver variables (tier 2 of the design was not built)",
         "5"),
 "C19": ("pack/unpack/swap over a symbolic integer; hexdump output as a symbolic string vs an independent reference dump (z3)",
         "pack/unpack/p*/u*/swap* executed on a symbolic value / symbolic bytes for every width and endianness spelling and compared by z3 with two's-complement reference terms (accept iff fits, inverses, double swap); hexdump executed with symbolic data bytes (f-strings rewritten so that the dump is a symbolic string): equality with an independent reference dump and palette-invariance after stripping colour codes decided by z3; dumpstruct on enumerated structures",
         "5"),
}

LEVEL_NOTE = ("trusted: CPython 3.12 semantics of the natively executed parts; the call-site rewrite (validated: repository suite passes under it); "
              "the proxy/C-callee models listed in evidence.models_used (validated per path by witness replay on the real code, "
              "evidence.traces_validated_against_impl); z3; the reference model (vf/refmodel.py). Bounds in evidence.coverage.bounds. "
              "Universal over input values within bounds for each enumerated definition; definitions are enumerated from a bounded grammar.")

def main():
    m = {
        "version": 1,
        "setup_cmd": "./setup.sh && ./check selftest",
        "hooks": {"guard": "DISSECT_CSTRUCT_VERIF", "enable": "none needed: checks import /repo's working tree through an import hook (vf/instr.py) that rewrites call sites in memory; the repository carries no instrumentation",
                  "baseline_off_cmd": "cd /repo && /venv/bin/python -m pytest -q -p no:cacheprovider", "source_commits": [], "add_only": True},
        "engines": [{"name": "symex", "path": "vf/", "serves_properties": sorted(CHECKS),
                     "kind_free_text": "symbolic execution of the real Python source (AST call-site rewrite + z3 bit-vector proxies + DFS path exploration), obligations discharged by z3, counterexamples replayed on the un-instrumented library"}],
        "checks": [],
        "not_applicable": [{"property_id": "C20", "reason": "quantifies over definition sets only (no data input to make symbolic); emitter is string assembly and the oracle is CPython's parser on concrete output - not encodable for a solver; enumerating definitions and calling ast.parse would be plain testing, a different technique (DESIGN.md section 6)"}],
        "notes": "exit 0 = held on everything explored (KNOWN-FINDING lines for listed open findings), 1 = VIOLATION (replayed on the plain library), 3 = harness error (never a verdict).",
    }
    for pid in sorted(CHECKS):
        tech, text, ref = CHECKS[pid]
        m["checks"].append({
            "property_id": pid, "quick_cmd": f"./check {pid} --tier quick", "thorough_cmd": f"./check {pid} --tier thorough",
            "evidence_file": f"evidence/{pid}.json", "replay_cmd_template": "./check replay {path}", "engine": "symex",
            "level_claimed": {"category": "model_checking", "text": text, "design_ref": f"DESIGN.md section {ref} ({pid})"},
            "level_note": LEVEL_NOTE, "technique": "solver-based bounded symbolic execution of the real code (z3): " + tech,
        })
    claimed = set(CHECKS)
    import re
    for line in open("properties.jsonl"):
        pid = json.loads(line)["id"]
        if pid not in claimed and pid != "C20":
            m["not_applicable"].append({"property_id": pid, "reason": "check not built yet in this round (planned, see DESIGN.md section 5)"})
    json.dump(m, open("MANIFEST.json", "w"), indent=1)

if __name__ == "__main__":
    main()
